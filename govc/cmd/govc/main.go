package main

import (
	"flag"
	"fmt"
	"os"
	"sort"
	"strings"
	"time"

	"govc/engine"
	"govc/smt"
	"govc/sym"
)

func main() {
	if len(os.Args) < 2 {
		fmt.Fprintln(os.Stderr, "usage: govc fn|check|selftest ...")
		os.Exit(2)
	}
	defer smt.Cleanup()
	switch os.Args[1] {
	case "fn":
		cmdFn(os.Args[2:])
	case "check":
		os.Exit(cmdCheck(os.Args[2:]))
	case "frame":
		// govc frame <pkg-suffix> <key> : print the inferred may-write set
		e, err := engine.Load()
		if err != nil {
			fmt.Fprintln(os.Stderr, err)
			os.Exit(2)
		}
		fn := e.FindFunc(os.Args[2], os.Args[3])
		if fn == nil {
			fmt.Fprintln(os.Stderr, "function not found")
			os.Exit(2)
		}
		start := time.Now()
		fmt.Println(fn, e.Frames().MayWrite(fn), time.Since(start))
		if len(os.Args) > 4 {
			// govc frame <pkg> <key> <effect>: one call chain to a function with that direct effect
			for _, l := range e.Frames().Why(fn, os.Args[4]) {
				fmt.Println("   ->", l)
			}
		}
	default:
		fmt.Fprintln(os.Stderr, "unknown command", os.Args[1])
		os.Exit(2)
	}
}

// cmdFn: debug one function: govc fn <pkg-suffix> <key> [-paths] [-t secs]
func cmdFn(args []string) {
	fs := flag.NewFlagSet("fn", flag.ExitOnError)
	showPaths := fs.Bool("paths", false, "print every path")
	showScript := fs.Bool("script", false, "print failing SMT script")
	tmo := fs.Int("t", 10, "solver timeout (s)")
	maxPaths := fs.Int("max", 20000, "path cap")
	iface := fs.String("iface", "", "verify against this interface contract (IfaceName.Method) instead of the function's own")
	fs.Parse(args)
	if fs.NArg() < 2 {
		fmt.Fprintln(os.Stderr, "usage: govc fn [flags] <pkg-suffix> <key>")
		os.Exit(2)
	}
	e, err := engine.Load()
	if err != nil {
		fmt.Fprintln(os.Stderr, err)
		os.Exit(2)
	}
	fmt.Printf("loaded in %.1fs; contracts=%d unbound=%v\n", e.LoadSecs, len(e.Env.Cfg.Contracts), e.Unbound)
	fn := e.FindFunc(fs.Arg(0), fs.Arg(1))
	if fn == nil {
		fmt.Fprintln(os.Stderr, "function not found")
		os.Exit(2)
	}
	ct := e.Env.Cfg.Contracts[fn]
	if *iface != "" {
		ct = e.Env.Cfg.IfaceContracts[*iface]
		if ct == nil {
			fmt.Fprintln(os.Stderr, "no such interface contract")
			os.Exit(2)
		}
		e.IfaceImpls(ct)
	}
	start := time.Now()
	if os.Getenv("GOVC_FORKSTATS") != "" {
		sym.ForkStats = map[string]int{}
		defer func() {
			type kv struct {
				k string
				v int
			}
			var xs []kv
			for k, v := range sym.ForkStats {
				xs = append(xs, kv{k, v})
			}
			sort.Slice(xs, func(i, j int) bool { return xs[i].v > xs[j].v })
			for i, x := range xs {
				if i < 40 {
					fmt.Fprintf(os.Stderr, "FORK %6d %s\n", x.v, x.k)
				}
			}
		}()
	}
	fr := e.Env.VerifyFunc(fn, ct, *maxPaths)
	fmt.Printf("%s: %d paths (capped=%v) in %.2fs\n", fn, len(fr.Paths), fr.Capped, time.Since(start).Seconds())
	outc := map[string]int{}
	var obs []*sym.Oblig
	for _, p := range fr.Paths {
		outc[p.Outcome]++
		obs = append(obs, p.Obligs...)
		if *showPaths {
			fmt.Printf("  path %s: %s %s obligs=%d calls=%v\n", p.Decisions, p.Outcome, p.Msg, len(p.Obligs), p.Calls)
			if os.Getenv("GOVC_PC") != "" {
				for _, c := range p.PC {
					fmt.Printf("      pc: %s\n", trunc(c.String(), 300))
				}
			}
		}
	}
	fmt.Println("outcomes:", outc)
	var ab []string
	for m, n := range fr.Aborts {
		ab = append(ab, fmt.Sprintf("%dx %s", n, m))
	}
	sort.Strings(ab)
	for _, a := range ab {
		fmt.Println("  ABORT", a)
	}
	fmt.Println("bounded:", fr.Bounded)
	sts := engine.Discharge(obs, time.Duration(*tmo)*time.Second, 16)
	for _, st := range sts {
		fmt.Printf("  %-60s %s paths=%d trivial=%d %.2fs %v\n", st.Name, st.Status, st.Paths, st.Trivial, st.Seconds, st.Solvers)
		if st.Status != "discharged" && st.Failing != nil {
			fmt.Printf("     path=%s goal=%s\n", st.Failing.Path, trunc(st.Failing.Goal.String(), 600))
			if st.Result != nil {
				fmt.Printf("     solver=%s all=%v\n", st.Result.Status, st.Result.All)
				var ks []string
				for k := range st.Result.Model {
					ks = append(ks, k)
				}
				sort.Strings(ks)
				for _, k := range ks {
					fmt.Printf("       %s = %s\n", trunc(k, 100), st.Result.Model[k])
				}
				if st.Result.Status != "sat" {
					fmt.Printf("     output: %s\n", trunc(st.Result.Output, 500))
				}
			}
			if *showScript {
				fmt.Println(st.Script)
			}
		}
	}
}

func trunc(s string, n int) string {
	s = strings.ReplaceAll(s, "\n", " ")
	if len(s) > n {
		return s[:n] + "…"
	}
	return s
}

func cmdCheck(args []string) int {
	fs := flag.NewFlagSet("check", flag.ExitOnError)
	tier := fs.String("tier", "quick", "quick|thorough")
	baseline := fs.Bool("write-baseline", false, "record the currently discharged obligations as the claimed baseline (maintenance, never run by registered commands)")
	var id string
	if len(args) > 0 && !strings.HasPrefix(args[0], "-") {
		id = args[0]
		args = args[1:]
	}
	fs.Parse(args)
	if id == "" {
		fmt.Fprintln(os.Stderr, "usage: govc check <Cxx> [--tier quick|thorough]")
		return 2
	}
	if t := os.Getenv("VERIF_TIER"); t != "" && *tier == "quick" {
		*tier = t
	}
	return engine.RunProperty(id, *tier, *baseline)
}
