package smt

import (
	"fmt"
	"sort"
	"strings"
)

func q(name string) string {
	name = strings.ReplaceAll(name, "|", "!")
	name = strings.ReplaceAll(name, "\\", "!")
	return "|" + name + "|"
}

// Script renders (assert hyp_i)* (assert (not goal)) with declarations. If getValues is
// true a get-value over all ground leaf terms follows check-sat.
type Script struct {
	Text   string
	Values []*Term // terms queried by get-value, in order
}

func BuildScript(hyps []*Term, goal *Term, logicNIA bool) *Script {
	all := append([]*Term{}, hyps...)
	if goal != nil {
		all = append(all, goal)
	}
	seen := map[*Term]bool{}
	sorts := map[Sort]bool{}
	vars := map[string]*Term{}
	funs := map[string]*Term{}
	lits := map[Sort]map[string]*Term{}
	bound := map[*Term]bool{}
	refs := map[*Term]int{}
	var order []*Term
	for _, t := range all {
		Walk(t, seen, func(x *Term) {
			order = append(order, x)
			sorts[x.Sort] = true
			for _, a := range x.Args {
				refs[a]++
			}
			switch x.Op {
			case "var":
				vars[x.Name] = x
			case "app":
				funs[x.Name] = x
			case "lit":
				if lits[x.Sort] == nil {
					lits[x.Sort] = map[string]*Term{}
				}
				lits[x.Sort][x.Name] = x
			case "forall":
				for _, v := range x.Args[1:] {
					bound[v] = true
				}
			}
		})
	}
	// terms that (transitively) mention a bound variable cannot be hoisted
	hasBound := map[*Term]bool{}
	for _, x := range order { // post-order: children first
		if bound[x] {
			hasBound[x] = true
			continue
		}
		for _, a := range x.Args {
			if hasBound[a] {
				hasBound[x] = true
				break
			}
		}
	}
	var sb strings.Builder
	sb.WriteString("(set-option :produce-models true)\n")
	quant := false
	for _, x := range order {
		if x.Op == "forall" {
			quant = true
		}
	}
	_ = quant
	sb.WriteString("(set-logic ALL)\n")
	for _, s := range []Sort{Str, Addr, Err, Key, Obj} {
		if sorts[s] {
			fmt.Fprintf(&sb, "(declare-sort %s 0)\n", s)
		}
	}
	var vnames []string
	for n, v := range vars {
		if !bound[v] {
			vnames = append(vnames, n)
		}
	}
	sort.Strings(vnames)
	for _, n := range vnames {
		fmt.Fprintf(&sb, "(declare-const %s %s)\n", q(n), vars[n].Sort)
	}
	for _, n := range sortedKeys(funs) {
		f := funs[n]
		var as []string
		for _, a := range f.Args {
			as = append(as, string(a.Sort))
		}
		fmt.Fprintf(&sb, "(declare-fun %s (%s) %s)\n", q(n), strings.Join(as, " "), f.Sort)
	}
	var lsorts []string
	for s := range lits {
		lsorts = append(lsorts, string(s))
	}
	sort.Strings(lsorts)
	for _, s := range lsorts {
		ls := lits[Sort(s)]
		names := sortedKeys(ls)
		for _, n := range names {
			fmt.Fprintf(&sb, "(declare-const %s %s)\n", q("lit!"+s+"!"+n), s)
		}
		if len(names) > 1 {
			sb.WriteString("(assert (distinct")
			for _, n := range names {
				sb.WriteString(" " + q("lit!"+s+"!"+n))
			}
			sb.WriteString("))\n")
		}
	}
	// hoist shared closed sub-terms
	names := map[*Term]string{}
	var render func(t *Term) string
	render = func(t *Term) string {
		if n, ok := names[t]; ok {
			return n
		}
		switch t.Op {
		case "const":
			if t.Sort == Int {
				if t.Int.Sign() < 0 {
					return "(- " + new(bigAbs).abs(t) + ")"
				}
				return t.Int.String()
			}
			if t.B {
				return "true"
			}
			return "false"
		case "var":
			return q(t.Name)
		case "lit":
			return q("lit!" + string(t.Sort) + "!" + t.Name)
		case "app":
			var as []string
			for _, a := range t.Args {
				as = append(as, render(a))
			}
			return "(" + q(t.Name) + " " + strings.Join(as, " ") + ")"
		case "forall":
			var vs []string
			for _, v := range t.Args[1:] {
				vs = append(vs, "("+q(v.Name)+" "+string(v.Sort)+")")
			}
			return "(forall (" + strings.Join(vs, " ") + ") " + render(t.Args[0]) + ")"
		}
		var as []string
		for _, a := range t.Args {
			as = append(as, render(a))
		}
		return "(" + t.Op + " " + strings.Join(as, " ") + ")"
	}
	for _, x := range order {
		if len(x.Args) == 0 || hasBound[x] || refs[x] < 2 {
			continue
		}
		n := fmt.Sprintf("t!%d", x.id)
		fmt.Fprintf(&sb, "(define-fun %s () %s %s)\n", n, x.Sort, render(x))
		names[x] = n
	}
	for _, h := range hyps {
		fmt.Fprintf(&sb, "(assert %s)\n", render(h))
	}
	if goal != nil {
		fmt.Fprintf(&sb, "(assert (not %s))\n", render(goal))
	}
	sb.WriteString("(check-sat)\n")
	sc := &Script{}
	// values: all closed leaf-ish terms: vars and apps whose args are closed
	var vals []*Term
	for _, x := range order {
		if hasBound[x] {
			continue
		}
		if x.Op == "var" || x.Op == "app" {
			vals = append(vals, x)
		}
	}
	if len(vals) > 0 {
		sb.WriteString("(get-value (")
		for i, v := range vals {
			if i > 0 {
				sb.WriteByte(' ')
			}
			sb.WriteString(render(v))
		}
		sb.WriteString("))\n")
	}
	sc.Values = vals
	sc.Text = sb.String()
	return sc
}

type bigAbs struct{}

func (*bigAbs) abs(t *Term) string {
	s := t.Int.String()
	return strings.TrimPrefix(s, "-")
}
