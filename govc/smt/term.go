// Package smt is a small hash-consed term DAG with light simplification and an
// SMT-LIB2 printer. Integers are mathematical (sort Int); every other Go scalar is
// either Bool or an uninterpreted sort with equality.
package smt

import (
	"fmt"
	"math/big"
	"sort"
	"strings"
)

type Sort string

const (
	Int  Sort = "Int"
	Bool Sort = "Bool"
	Str  Sort = "Str"  // Go strings (uninterpreted, literals pairwise distinct)
	Addr Sort = "Addr" // sdk.AccAddress
	Err  Sort = "Err"  // error values: only nil-ness and identity
	Key  Sort = "Key"  // byte strings used as store keys / opaque bytes
	Obj  Sort = "Obj"  // any other opaque value
)

type Term struct {
	Op   string // "const","var","app","+","-","*","div","mod","=","<","<=","not","and","or","ite","=>","forall"
	Name string // var / app / forall-bound name
	Int  *big.Int
	B    bool
	Args []*Term
	Sort Sort
	id   int
	key  string
}

func (t *Term) ID() int { return t.id }

var table = map[string]*Term{}
var nextID = 1

func mk(t *Term) *Term {
	var sb strings.Builder
	sb.WriteString(t.Op)
	sb.WriteByte('|')
	sb.WriteString(string(t.Sort))
	sb.WriteByte('|')
	sb.WriteString(t.Name)
	if t.Int != nil {
		sb.WriteByte('#')
		sb.WriteString(t.Int.String())
	}
	if t.Op == "const" && t.Sort == Bool {
		if t.B {
			sb.WriteString("T")
		} else {
			sb.WriteString("F")
		}
	}
	for _, a := range t.Args {
		fmt.Fprintf(&sb, ",%d", a.id)
	}
	k := sb.String()
	if old, ok := table[k]; ok {
		return old
	}
	t.key = k
	t.id = nextID
	nextID++
	table[k] = t
	return t
}

var (
	True  = mk(&Term{Op: "const", Sort: Bool, B: true})
	False = mk(&Term{Op: "const", Sort: Bool, B: false})
)

func BoolC(b bool) *Term {
	if b {
		return mk(&Term{Op: "const", Sort: Bool, B: true})
	}
	return mk(&Term{Op: "const", Sort: Bool, B: false})
}

func IntC(i int64) *Term       { return mk(&Term{Op: "const", Sort: Int, Int: big.NewInt(i)}) }
func IntBig(i *big.Int) *Term  { return mk(&Term{Op: "const", Sort: Int, Int: new(big.Int).Set(i)}) }
func Var(n string, s Sort) *Term { return mk(&Term{Op: "var", Name: n, Sort: s}) }

// StrC is a string literal: a named constant of sort Str; literals are pairwise distinct
// (the printer emits a distinct axiom over those that occur).
func StrC(s string) *Term { return mk(&Term{Op: "lit", Name: s, Sort: Str}) }

// Lit is a named literal of any uninterpreted sort; literals of one sort are pairwise distinct.
func Lit(name string, s Sort) *Term { return mk(&Term{Op: "lit", Name: name, Sort: s}) }

func App(name string, s Sort, args ...*Term) *Term {
	if len(args) == 0 {
		return Var(name, s)
	}
	return mk(&Term{Op: "app", Name: name, Sort: s, Args: args})
}

func (t *Term) IsConst() bool { return t.Op == "const" }
func (t *Term) IsTrue() bool  { return t.Op == "const" && t.Sort == Bool && t.B }
func (t *Term) IsFalse() bool { return t.Op == "const" && t.Sort == Bool && !t.B }
func (t *Term) IsLit() bool   { return t.Op == "lit" }

func (t *Term) ConstInt() (*big.Int, bool) {
	if t.Op == "const" && t.Sort == Int {
		return t.Int, true
	}
	return nil, false
}

func Add(a, b *Term) *Term {
	if x, ok := a.ConstInt(); ok {
		if y, ok := b.ConstInt(); ok {
			return IntBig(new(big.Int).Add(x, y))
		}
		if x.Sign() == 0 {
			return b
		}
	}
	if y, ok := b.ConstInt(); ok && y.Sign() == 0 {
		return a
	}
	return mk(&Term{Op: "+", Sort: Int, Args: []*Term{a, b}})
}

func Sub(a, b *Term) *Term {
	if x, ok := a.ConstInt(); ok {
		if y, ok := b.ConstInt(); ok {
			return IntBig(new(big.Int).Sub(x, y))
		}
	}
	if y, ok := b.ConstInt(); ok && y.Sign() == 0 {
		return a
	}
	if a == b {
		return IntC(0)
	}
	return mk(&Term{Op: "-", Sort: Int, Args: []*Term{a, b}})
}

func Neg(a *Term) *Term { return Sub(IntC(0), a) }

func Mul(a, b *Term) *Term {
	if x, ok := a.ConstInt(); ok {
		if y, ok := b.ConstInt(); ok {
			return IntBig(new(big.Int).Mul(x, y))
		}
		if x.Sign() == 0 {
			return IntC(0)
		}
		if x.Cmp(big.NewInt(1)) == 0 {
			return b
		}
	}
	if y, ok := b.ConstInt(); ok {
		if y.Sign() == 0 {
			return IntC(0)
		}
		if y.Cmp(big.NewInt(1)) == 0 {
			return a
		}
		// constant first, canonical
		return mk(&Term{Op: "*", Sort: Int, Args: []*Term{b, a}})
	}
	return mk(&Term{Op: "*", Sort: Int, Args: []*Term{a, b}})
}

// IsLinearMul reports whether a "*" term has a constant factor.
func IsLinearMul(t *Term) bool {
	if t.Op != "*" {
		return true
	}
	_, ok := t.Args[0].ConstInt()
	return ok
}

// EDiv / EMod are SMT-LIB Euclidean div/mod (floor for positive divisor).
func EDiv(a, b *Term) *Term {
	if x, ok := a.ConstInt(); ok {
		if y, ok := b.ConstInt(); ok && y.Sign() != 0 {
			q, _ := new(big.Int).DivMod(x, y, new(big.Int))
			return IntBig(q)
		}
	}
	if y, ok := b.ConstInt(); ok && y.Cmp(big.NewInt(1)) == 0 {
		return a
	}
	return mk(&Term{Op: "div", Sort: Int, Args: []*Term{a, b}})
}

func EMod(a, b *Term) *Term {
	if x, ok := a.ConstInt(); ok {
		if y, ok := b.ConstInt(); ok && y.Sign() != 0 {
			_, m := new(big.Int).DivMod(x, y, new(big.Int))
			return IntBig(m)
		}
	}
	return mk(&Term{Op: "mod", Sort: Int, Args: []*Term{a, b}})
}

// TDiv is truncated division (Go's / on integers and big.Int.Quo), for b != 0.
func TDiv(a, b *Term) *Term {
	if x, ok := a.ConstInt(); ok {
		if y, ok := b.ConstInt(); ok && y.Sign() != 0 {
			return IntBig(new(big.Int).Quo(x, y))
		}
	}
	if y, ok := b.ConstInt(); ok && y.Sign() > 0 {
		// a>=0: a div b ; a<0: -((-a) div b)
		return Ite(Ge(a, IntC(0)), EDiv(a, b), Neg(EDiv(Neg(a), b)))
	}
	absA := Ite(Ge(a, IntC(0)), a, Neg(a))
	absB := Ite(Ge(b, IntC(0)), b, Neg(b))
	q := EDiv(absA, absB)
	same := Eq(Ge(a, IntC(0)), Ge(b, IntC(0)))
	return Ite(same, q, Neg(q))
}

// TRem is Go's % (sign follows dividend).
func TRem(a, b *Term) *Term { return Sub(a, Mul(b, TDiv(a, b))) }

func Eq(a, b *Term) *Term {
	if a == b {
		return True
	}
	if a.Sort != b.Sort {
		panic(fmt.Sprintf("smt.Eq: sort mismatch %s vs %s (%s, %s)", a.Sort, b.Sort, a, b))
	}
	if a.Op == "const" && b.Op == "const" {
		if a.Sort == Int {
			return BoolC(a.Int.Cmp(b.Int) == 0)
		}
		return BoolC(a.B == b.B)
	}
	if a.Op == "lit" && b.Op == "lit" {
		return BoolC(a.Name == b.Name)
	}
	if a.Sort == Bool {
		if a.IsTrue() {
			return b
		}
		if b.IsTrue() {
			return a
		}
		if a.IsFalse() {
			return Not(b)
		}
		if b.IsFalse() {
			return Not(a)
		}
	}
	if a.id > b.id {
		a, b = b, a
	}
	return mk(&Term{Op: "=", Sort: Bool, Args: []*Term{a, b}})
}

func Ne(a, b *Term) *Term { return Not(Eq(a, b)) }

func Lt(a, b *Term) *Term {
	if x, ok := a.ConstInt(); ok {
		if y, ok := b.ConstInt(); ok {
			return BoolC(x.Cmp(y) < 0)
		}
	}
	if a == b {
		return False
	}
	return mk(&Term{Op: "<", Sort: Bool, Args: []*Term{a, b}})
}

func Le(a, b *Term) *Term {
	if x, ok := a.ConstInt(); ok {
		if y, ok := b.ConstInt(); ok {
			return BoolC(x.Cmp(y) <= 0)
		}
	}
	if a == b {
		return True
	}
	return mk(&Term{Op: "<=", Sort: Bool, Args: []*Term{a, b}})
}

func Gt(a, b *Term) *Term { return Lt(b, a) }
func Ge(a, b *Term) *Term { return Le(b, a) }

func Not(a *Term) *Term {
	if a.IsTrue() {
		return False
	}
	if a.IsFalse() {
		return True
	}
	if a.Op == "not" {
		return a.Args[0]
	}
	return mk(&Term{Op: "not", Sort: Bool, Args: []*Term{a}})
}

func And(ts ...*Term) *Term {
	var out []*Term
	seen := map[int]bool{}
	for _, t := range ts {
		if t.IsFalse() {
			return False
		}
		if t.IsTrue() {
			continue
		}
		if t.Op == "and" {
			for _, a := range t.Args {
				if !seen[a.id] {
					seen[a.id] = true
					out = append(out, a)
				}
			}
			continue
		}
		if !seen[t.id] {
			seen[t.id] = true
			out = append(out, t)
		}
	}
	for _, t := range out {
		if t.Op == "not" && seen[t.Args[0].id] {
			return False
		}
	}
	if len(out) == 0 {
		return True
	}
	if len(out) == 1 {
		return out[0]
	}
	return mk(&Term{Op: "and", Sort: Bool, Args: out})
}

func Or(ts ...*Term) *Term {
	var out []*Term
	seen := map[int]bool{}
	for _, t := range ts {
		if t.IsTrue() {
			return True
		}
		if t.IsFalse() {
			continue
		}
		if t.Op == "or" {
			for _, a := range t.Args {
				if !seen[a.id] {
					seen[a.id] = true
					out = append(out, a)
				}
			}
			continue
		}
		if !seen[t.id] {
			seen[t.id] = true
			out = append(out, t)
		}
	}
	for _, t := range out {
		if t.Op == "not" && seen[t.Args[0].id] {
			return True
		}
	}
	if len(out) == 0 {
		return False
	}
	if len(out) == 1 {
		return out[0]
	}
	return mk(&Term{Op: "or", Sort: Bool, Args: out})
}

func Implies(a, b *Term) *Term {
	if a.IsTrue() {
		return b
	}
	if a.IsFalse() || b.IsTrue() {
		return True
	}
	if b.IsFalse() {
		return Not(a)
	}
	return mk(&Term{Op: "=>", Sort: Bool, Args: []*Term{a, b}})
}

func Ite(c, a, b *Term) *Term {
	if c.IsTrue() {
		return a
	}
	if c.IsFalse() {
		return b
	}
	if a == b {
		return a
	}
	if a.Sort != b.Sort {
		panic(fmt.Sprintf("smt.Ite: sort mismatch %s vs %s", a.Sort, b.Sort))
	}
	if a.Sort == Bool {
		if a.IsTrue() && b.IsFalse() {
			return c
		}
		if a.IsFalse() && b.IsTrue() {
			return Not(c)
		}
	}
	return mk(&Term{Op: "ite", Sort: a.Sort, Args: []*Term{c, a, b}})
}

// Forall binds the variables (terms with Op "var") in body.
func Forall(vars []*Term, body *Term) *Term {
	if body.IsTrue() {
		return True
	}
	if len(vars) == 0 {
		return body
	}
	args := append([]*Term{body}, vars...)
	return mk(&Term{Op: "forall", Sort: Bool, Args: args})
}

func Min(a, b *Term) *Term { return Ite(Le(a, b), a, b) }
func Max(a, b *Term) *Term { return Ite(Ge(a, b), a, b) }
func Abs(a *Term) *Term    { return Ite(Ge(a, IntC(0)), a, Neg(a)) }

// Subst replaces occurrences of the keys (by identity) with the mapped terms.
func Subst(t *Term, m map[*Term]*Term) *Term {
	memo := map[*Term]*Term{}
	var rec func(*Term) *Term
	rec = func(t *Term) *Term {
		if r, ok := m[t]; ok {
			return r
		}
		if len(t.Args) == 0 {
			return t
		}
		if r, ok := memo[t]; ok {
			return r
		}
		args := make([]*Term, len(t.Args))
		ch := false
		for i, a := range t.Args {
			args[i] = rec(a)
			if args[i] != a {
				ch = true
			}
		}
		var r *Term
		if !ch {
			r = t
		} else {
			r = Rebuild(t, args)
		}
		memo[t] = r
		return r
	}
	return rec(t)
}

// Rebuild re-applies the smart constructors of t's operator to new arguments.
func Rebuild(t *Term, a []*Term) *Term {
	switch t.Op {
	case "app":
		return App(t.Name, t.Sort, a...)
	case "+":
		return Add(a[0], a[1])
	case "-":
		return Sub(a[0], a[1])
	case "*":
		return Mul(a[0], a[1])
	case "div":
		return EDiv(a[0], a[1])
	case "mod":
		return EMod(a[0], a[1])
	case "=":
		return Eq(a[0], a[1])
	case "<":
		return Lt(a[0], a[1])
	case "<=":
		return Le(a[0], a[1])
	case "not":
		return Not(a[0])
	case "and":
		return And(a...)
	case "or":
		return Or(a...)
	case "=>":
		return Implies(a[0], a[1])
	case "ite":
		return Ite(a[0], a[1], a[2])
	case "forall":
		return Forall(a[1:], a[0])
	}
	panic("smt.Rebuild: " + t.Op)
}

func (t *Term) String() string {
	var sb strings.Builder
	t.write(&sb, 0)
	return sb.String()
}

func (t *Term) write(sb *strings.Builder, depth int) {
	if depth > 40 {
		sb.WriteString("…")
		return
	}
	switch t.Op {
	case "const":
		if t.Sort == Int {
			sb.WriteString(t.Int.String())
		} else if t.B {
			sb.WriteString("true")
		} else {
			sb.WriteString("false")
		}
	case "var":
		sb.WriteString(t.Name)
	case "lit":
		fmt.Fprintf(sb, "%q", t.Name)
	case "app":
		sb.WriteString(t.Name)
		sb.WriteByte('(')
		for i, a := range t.Args {
			if i > 0 {
				sb.WriteString(", ")
			}
			a.write(sb, depth+1)
		}
		sb.WriteByte(')')
	case "forall":
		sb.WriteString("(forall ")
		for _, v := range t.Args[1:] {
			sb.WriteString(v.Name + " ")
		}
		sb.WriteString(":: ")
		t.Args[0].write(sb, depth+1)
		sb.WriteByte(')')
	default:
		sb.WriteByte('(')
		sb.WriteString(t.Op)
		for _, a := range t.Args {
			sb.WriteByte(' ')
			a.write(sb, depth+1)
		}
		sb.WriteByte(')')
	}
}

// Walk visits every sub-term once (post-order).
func Walk(t *Term, seen map[*Term]bool, f func(*Term)) {
	if seen[t] {
		return
	}
	seen[t] = true
	for _, a := range t.Args {
		Walk(a, seen, f)
	}
	f(t)
}

// WalkGround is Walk that does not enter quantified sub-formulas (whose terms may mention
// bound variables and are not ground).
func WalkGround(t *Term, seen map[*Term]bool, f func(*Term)) {
	if seen[t] {
		return
	}
	seen[t] = true
	if t.Op == "forall" || t.Op == "exists" {
		return
	}
	for _, a := range t.Args {
		WalkGround(a, seen, f)
	}
	f(t)
}

func sortedKeys[M ~map[string]V, V any](m M) []string {
	ks := make([]string, 0, len(m))
	for k := range m {
		ks = append(ks, k)
	}
	sort.Strings(ks)
	return ks
}
