package smt

import (
	"context"
	"fmt"
	"os"
	"os/exec"
	"path/filepath"
	"strings"
	"sync"
	"time"
)

type Result struct {
	Status  string // "unsat", "sat", "unknown", "timeout", "error"
	Solver  string
	Seconds float64
	Model   map[string]string // rendered term -> value (only for sat)
	Output  string            // raw output of the deciding (or last) solver
	All     map[string]string // solver -> status
}

type SolverSpec struct {
	Name string
	Args func(file string, timeout time.Duration) []string
}

var Solvers = []SolverSpec{
	{"z3-new", func(f string, t time.Duration) []string {
		return []string{"z3-new", fmt.Sprintf("-T:%d", int(t.Seconds())+1), f}
	}},
	{"z3", func(f string, t time.Duration) []string {
		return []string{"/usr/bin/z3", fmt.Sprintf("-T:%d", int(t.Seconds())+1), f}
	}},
	{"cvc5", func(f string, t time.Duration) []string {
		return []string{"cvc5", fmt.Sprintf("--tlimit=%d", t.Milliseconds()), f}
	}},
}

var scratchDir string
var scratchOnce sync.Once
var fileSeq int
var fileMu sync.Mutex

func ScratchDir() string {
	scratchOnce.Do(func() {
		d, err := os.MkdirTemp("", "govc-smt-")
		if err != nil {
			panic(err)
		}
		scratchDir = d
	})
	return scratchDir
}

func Cleanup() {
	if scratchDir != "" {
		os.RemoveAll(scratchDir)
	}
}

// Solve decides a script: first cvc5 alone with a short limit (it answers most VCs here in
// tens of milliseconds), then all three solvers raced under the full limit.
func Solve(sc *Script, timeout time.Duration, only ...string) *Result {
	if len(only) == 0 {
		first := 3 * time.Second
		if timeout < first {
			first = timeout
		}
		r := solveRace(sc, first, "cvc5")
		if r.Status == "sat" || r.Status == "unsat" {
			return r
		}
		r2 := solveRace(sc, timeout, "z3-new", "z3", "cvc5")
		r2.Seconds += r.Seconds
		return r2
	}
	return solveRace(sc, timeout, only...)
}

func solveRace(sc *Script, timeout time.Duration, only ...string) *Result {
	fileMu.Lock()
	fileSeq++
	n := fileSeq
	fileMu.Unlock()
	file := filepath.Join(ScratchDir(), fmt.Sprintf("q%d.smt2", n))
	if err := os.WriteFile(file, []byte(sc.Text), 0o644); err != nil {
		return &Result{Status: "error", Output: err.Error()}
	}
	defer os.Remove(file)
	ctx, cancel := context.WithTimeout(context.Background(), timeout+2*time.Second)
	defer cancel()
	type one struct {
		name, status, out string
		secs            float64
	}
	specs := Solvers
	if len(only) > 0 {
		specs = nil
		for _, s := range Solvers {
			for _, o := range only {
				if s.Name == o {
					specs = append(specs, s)
				}
			}
		}
	}
	ch := make(chan one, len(specs))
	for _, s := range specs {
		s := s
		go func() {
			args := s.Args(file, timeout)
			start := time.Now()
			cmd := exec.CommandContext(ctx, args[0], args[1:]...)
			out, _ := cmd.CombinedOutput()
			st := "unknown"
			first := strings.TrimSpace(strings.SplitN(string(out), "\n", 2)[0])
			switch {
			case first == "unsat":
				st = "unsat"
			case first == "sat":
				st = "sat"
			case first == "timeout" || strings.Contains(first, "interrupted") || ctx.Err() != nil:
				st = "timeout"
			case first == "unknown":
				st = "unknown"
			default:
				st = "error"
			}
			ch <- one{s.Name, st, string(out), time.Since(start).Seconds()}
		}()
	}
	res := &Result{Status: "unknown", All: map[string]string{}}
	for i := 0; i < len(specs); i++ {
		o := <-ch
		res.All[o.name] = o.status
		if o.status == "unsat" || o.status == "sat" {
			res.Status, res.Solver, res.Seconds, res.Output = o.status, o.name, o.secs, o.out
			if o.status == "sat" {
				res.Model = parseValues(o.out, sc)
			}
			cancel()
			return res
		}
		if res.Output == "" || o.status != "error" {
			res.Output = o.name + ": " + truncate(o.out, 2000)
			res.Seconds = o.secs
		}
		if o.status == "timeout" && res.Status != "timeout" {
			res.Status = "timeout"
		}
	}
	allErr := true
	for _, st := range res.All {
		if st != "error" {
			allErr = false
		}
	}
	if allErr {
		res.Status = "error"
	}
	return res
}

func truncate(s string, n int) string {
	if len(s) > n {
		return s[:n] + "…"
	}
	return s
}

// parseValues reads the (get-value ...) answer: a list of (term value) pairs, in order.
func parseValues(out string, sc *Script) map[string]string {
	m := map[string]string{}
	i := strings.Index(out, "\n")
	if i < 0 {
		return m
	}
	body := strings.TrimSpace(out[i+1:])
	if !strings.HasPrefix(body, "(") {
		return m
	}
	// tokenize s-expressions one level deep
	items := splitSexprs(body[1:])
	for k, it := range items {
		if k >= len(sc.Values) {
			break
		}
		parts := splitSexprs(strings.TrimSpace(it)[1:])
		if len(parts) >= 2 {
			m[sc.Values[k].String()] = normVal(parts[len(parts)-1])
		}
	}
	return m
}

func normVal(v string) string {
	v = strings.TrimSpace(v)
	v = strings.TrimSuffix(v, ")")
	v = strings.TrimSpace(v)
	if strings.HasPrefix(v, "(-") {
		v = strings.TrimSuffix(strings.TrimSpace(strings.TrimPrefix(v, "(-")), ")")
		return "-" + strings.TrimSpace(v)
	}
	return v
}

// splitSexprs splits a string of consecutive s-expressions / atoms at nesting depth 0,
// stopping at the first unmatched ")".
func splitSexprs(s string) []string {
	var out []string
	depth := 0
	start := -1
	inBar := false
	for i := 0; i < len(s); i++ {
		c := s[i]
		if inBar {
			if c == '|' {
				inBar = false
			}
			continue
		}
		switch c {
		case '|':
			inBar = true
			if start < 0 {
				start = i
			}
		case '(':
			if depth == 0 && start < 0 {
				start = i
			}
			depth++
		case ')':
			depth--
			if depth < 0 {
				if start >= 0 {
					out = append(out, s[start:i])
				}
				return out
			}
			if depth == 0 && start >= 0 && s[start] == '(' {
				out = append(out, s[start:i+1])
				start = -1
			}
		case ' ', '\n', '\t', '\r':
			if depth == 0 && start >= 0 {
				out = append(out, s[start:i])
				start = -1
			}
		default:
			if start < 0 {
				start = i
			}
		}
	}
	if start >= 0 {
		out = append(out, s[start:])
	}
	return out
}
