package sym

import (
	"fmt"
	"go/types"
	"golang.org/x/tools/go/ssa"
	"math/big"
	"strings"

	"govc/smt"
)

func (ex *Exec) ctxTime(c *CtxV) *smt.Term {
	if c.Time != nil {
		return c.Time
	}
	return smt.Var("ctx!blocktime", smt.Int)
}
func (ex *Exec) ctxHeight(c *CtxV) *smt.Term {
	if c.Height != nil {
		return c.Height
	}
	return smt.Var("ctx!height", smt.Int)
}

func init() {
	t := func(c *Call, i int) *smt.Term { return c.Ex.term(c.Args[i]) }
	CX := func(n string) string { return "(" + sdkT + ".Context)." + n }

	// ---- sdk.Context ----
	reg(func(c *Call) Val { return &TimeV{Unix: c.Ex.ctxTime(c.ctx(0))} }, CX("BlockTime"))
	reg(func(c *Call) Val { return c.Ex.ctxHeight(c.ctx(0)) }, CX("BlockHeight"))
	reg(func(c *Call) Val { return &OpaqueV{Tag: "eventmanager"} }, CX("EventManager"))
	reg(func(c *Call) Val { return &OpaqueV{Tag: "logger"} }, CX("Logger"))
	reg(func(c *Call) Val { return &OpaqueV{Tag: "gasmeter"} }, CX("GasMeter"), CX("BlockGasMeter"))
	reg(func(c *Call) Val { return smt.Var("ctx!chainid", smt.Str) }, CX("ChainID"))
	reg(func(c *Call) Val { return smt.Var("ctx!ischecktx", smt.Bool) }, CX("IsCheckTx"))
	reg(func(c *Call) Val { return smt.Var("ctx!isrechecktx", smt.Bool) }, CX("IsReCheckTx"))
	reg(func(c *Call) Val { return c.Args[0] }, CX("WithEventManager"), CX("WithGasMeter"), CX("WithLogger"), CX("WithValue"), CX("WithContext"),
		CX("Context"), CX("WithIsCheckTx"), CX("WithBlockGasMeter"), CX("WithTxBytes"), CX("WithKVGasConfig"), CX("WithTransientKVGasConfig"),
		sdkT+".UnwrapSDKContext", sdkT+".WrapSDKContext")
	reg(func(c *Call) Val {
		cc := *c.ctx(0)
		cc.Time = c.Args[1].(*TimeV).Unix
		return &cc
	}, CX("WithBlockTime"))
	reg(func(c *Call) Val {
		cc := *c.ctx(0)
		cc.Height = t(c, 1)
		return &cc
	}, CX("WithBlockHeight"))
	reg(func(c *Call) Val {
		parent := c.ctx(0)
		child := &CtxV{W: parent.W.Clone(), Time: parent.Time, Height: parent.Height}
		write := &ClosureV{Fn: nil, Bind: []Val{parent, child}}
		return TupleV{child, &writeFn{Parent: parent, Child: child, c: write}}
	}, CX("CacheContext"))
	reg(func(c *Call) Val {
		// ctx.KVStore(key) returns whatever store is mounted under the key: the module's
		// transient store when handed the keeper's transient store key
		return &StoreV{W: c.ctx(0).W, Module: c.callerModule(), Transient: c.Common != nil && len(c.Common.Args) > 1 && IsTransientKeyExpr(c.Common.Args[1])}
	}, CX("KVStore"))
	reg(func(c *Call) Val {
		return &StoreV{W: c.ctx(0).W, Module: c.callerModule(), Transient: true}
	}, CX("TransientStore"))
	reg(func(c *Call) Val {
		s := &StructV{T: c.Result, F: nil}
		st := c.Result.Underlying().(*types.Struct)
		nm := Namer{Prefix: "ctx!header"}
		for i := 0; i < st.NumFields(); i++ {
			f := st.Field(i)
			switch f.Name() {
			case "Height":
				s.F = append(s.F, c.Ex.ctxHeight(c.ctx(0)))
			case "Time":
				s.F = append(s.F, &TimeV{Unix: c.Ex.ctxTime(c.ctx(0))})
			default:
				s.F = append(s.F, &LazyV{T: f.Type(), Nm: nm.Sub(f.Name())})
			}
		}
		return s
	}, CX("BlockHeader"))

	// event manager, logger, gas meter: no ghost effect
	noop := func(c *Call) Val {
		if c.Result == nil {
			return nil
		}
		return c.Ex.symbolicResult(c.Result, Namer{Prefix: c.Ex.site("opaque!" + c.Name)})
	}
	reg(noop, "(*"+sdkT+".EventManager).EmitEvent", "(*"+sdkT+".EventManager).EmitEvents", "(*"+sdkT+".EventManager).EmitTypedEvent",
		"(*"+sdkT+".EventManager).EmitTypedEvents", sdkT+".NewEvent", sdkT+".NewAttribute", sdkT+".NewEventManager")
	regInvoke(func(c *Call) Val { return c.Args[0] }, "Logger.With")
	regInvoke(noop, "Logger.Info", "Logger.Error", "Logger.Debug", "Logger.Warn",
		"GasMeter.ConsumeGas", "GasMeter.GasConsumed", "GasMeter.Limit", "GasMeter.GasRemaining", "GasMeter.IsOutOfGas",
		"EventManagerI.EmitEvent", "EventManagerI.EmitEvents", "EventManagerI.EmitTypedEvent", "EventManagerI.EmitTypedEvents")

	// ---- store ----
	regInvoke(func(c *Call) Val {
		return &StoreV{W: c.ctx(1).W, Module: c.callerModule()}
	}, "KVStoreService.OpenKVStore")
	regInvoke(func(c *Call) Val {
		return &StoreV{W: c.ctx(1).W, Module: c.callerModule(), Transient: true}
	}, "TransientStoreService.OpenTransientStore")
	reg(func(c *Call) Val { return c.Args[0] }, "github.com/cosmos/cosmos-sdk/runtime.KVStoreAdapter")
	reg(func(c *Call) Val {
		st := c.Ex.asStore(c.Args[0])
		p := c.Ex.asBytes(c.Args[1])
		ns := *st
		if st.Prefix != nil {
			ns.Prefix = &BytesV{Tag: "cat", Sub: []*BytesV{st.Prefix, p}}
		} else {
			ns.Prefix = p
		}
		return &ns
	}, "cosmossdk.io/store/prefix.NewStore")
	get := func(c *Call) Val {
		st := c.Ex.asStore(c.Args[0])
		key := c.Ex.asBytes(c.Args[1])
		id, ka := tableID(st, key)
		b := c.Ex.tableGet(st.W, id, ka)
		if b == nil {
			return &BytesV{Nil: true}
		}
		return b
	}
	has := func(c *Call) Val {
		st := c.Ex.asStore(c.Args[0])
		key := c.Ex.asBytes(c.Args[1])
		id, ka := tableID(st, key)
		return smt.BoolC(c.Ex.tableGet(st.W, id, ka) != nil)
	}
	set := func(c *Call) Val {
		st := c.Ex.asStore(c.Args[0])
		key := c.Ex.asBytes(c.Args[1])
		val := c.Ex.asBytes(c.Args[2])
		id, ka := tableID(st, key)
		c.Ex.tableSet(st.W, id, ka, val)
		return nil
	}
	del := func(c *Call) Val {
		st := c.Ex.asStore(c.Args[0])
		key := c.Ex.asBytes(c.Args[1])
		id, ka := tableID(st, key)
		c.Ex.tableSet(st.W, id, ka, nil)
		return nil
	}
	regInvoke(get, "KVStore.Get", "BasicKVStore.Get")
	regInvoke(has, "KVStore.Has", "BasicKVStore.Has")
	regInvoke(set, "KVStore.Set", "BasicKVStore.Set")
	regInvoke(del, "KVStore.Delete", "BasicKVStore.Delete")
	reg(get, "(cosmossdk.io/store/prefix.Store).Get")
	reg(has, "(cosmossdk.io/store/prefix.Store).Has")
	reg(set, "(cosmossdk.io/store/prefix.Store).Set")
	reg(del, "(cosmossdk.io/store/prefix.Store).Delete")

	// ---- codec ----
	marshal := func(c *Call) Val {
		obj := c.Ex.force(c.Args[1])
		if p, ok := obj.(*PtrV); ok {
			obj = c.Ex.load(p)
		}
		if iv, ok := obj.(*IfaceV); ok {
			obj = iv.V
			if p, ok := obj.(*PtrV); ok {
				obj = c.Ex.load(p)
			}
		}
		return &BytesV{Tag: "marshal", Obj: copyDeep(c.Ex.deepForceShallow(obj))}
	}
	unmarshal := func(c *Call) Val {
		b := c.Ex.asBytes(c.Args[1])
		dst := c.Ex.force(c.Args[2])
		if iv, ok := dst.(*IfaceV); ok {
			dst = iv.V
		}
		p, ok := dst.(*PtrV)
		if !ok {
			c.Ex.abort("unmarshal into %T", dst)
		}
		c.Ex.store(p, c.Ex.unmarshalTo(b, p.T))
		return nil
	}
	regInvoke(marshal, "BinaryCodec.MustMarshal", "Codec.MustMarshal", "BinaryCodec.MustMarshalLengthPrefixed")
	regInvoke(func(c *Call) Val { return TupleV{marshal(c), c.Ex.nilErr()} }, "BinaryCodec.Marshal", "Codec.Marshal")
	regInvoke(unmarshal, "BinaryCodec.MustUnmarshal", "Codec.MustUnmarshal", "BinaryCodec.MustUnmarshalLengthPrefixed")
	regInvoke(func(c *Call) Val {
		// decoding stored bytes of the expected type does not fail (codec round trip, T5)
		unmarshal(c)
		return c.Ex.nilErr()
	}, "BinaryCodec.Unmarshal", "Codec.Unmarshal")

	// ---- iterators: materialised, bounded ----
	iter := func(reverse bool) Model {
		return func(c *Call) Val {
			st := c.Ex.asStore(c.Args[0])
			p := c.Ex.asBytes(c.Args[1])
			return c.Ex.makeIterator(st, p, reverse, c)
		}
	}
	reg(iter(false), "cosmossdk.io/store/types.KVStorePrefixIterator")
	reg(iter(true), "cosmossdk.io/store/types.KVStoreReversePrefixIterator")
	// Iterators are abstract: each position yields an arbitrary row (an over-approximation of
	// any table contents, including rows written on this path). Loops over them fork until
	// the block-visit cap and must therefore sit in functions declared abstract.
	regInvoke(func(c *Call) Val {
		it := c.Args[0].(*IterV)
		if it.Fam != nil && it.Pos == 0 {
			return smt.BoolC(c.Ex.iterFirst(it) != nil)
		}
		return smt.Var(it.ID+"!valid!"+itoa(it.Pos), smt.Bool)
	}, "Iterator.Valid")
	regInvoke(func(c *Call) Val { c.Args[0].(*IterV).Pos++; return nil }, "Iterator.Next")
	regInvoke(func(c *Call) Val {
		it := c.Args[0].(*IterV)
		if it.Fam != nil && it.Pos == 0 {
			if r := c.Ex.iterFirst(it); r != nil {
				return r
			}
		}
		return &BytesV{Tag: "row", Row: &RowRef{Base: it.ID + "!" + itoa(it.Pos)}}
	}, "Iterator.Value")
	regInvoke(func(c *Call) Val {
		it := c.Args[0].(*IterV)
		return &BytesV{Tag: "iterkey", Args: []*smt.Term{smt.Var(it.ID+"!key!"+itoa(it.Pos), smt.Key)}}
	}, "Iterator.Key")
	regInvoke(func(c *Call) Val { return c.Ex.nilErr() }, "Iterator.Close", "Iterator.Error")

	// ---- bank ----
	bankSend := func(c *Call, from, to *smt.Term, coins Val) Val {
		ex := c.Ex
		w := c.ctx(1).W
		coins = ex.asCoins(coins)
		if ex.branch(smt.Var(ex.site("bank!fail"), smt.Bool)) {
			return ex.freshErr("banksend")
		}
		suff := ex.forallDenom(func(d *smt.Term) *smt.Term {
			a := ex.amtOf(coins, d)
			return smt.And(smt.Ge(a, smt.IntC(0)), smt.Ge(ex.bal(w, from, d), a))
		}, coins)
		ex.assume(suff)
		w.bankDelta(from, coins, -1, false)
		w.bankDelta(to, coins, +1, false)
		w.Log = append(w.Log, "bank send")
		ex.Calls = append(ex.Calls, "bank.send")
		return ex.nilErr()
	}
	mod := func(name *smt.Term) *smt.Term { return smt.App("modaddr", smt.Addr, name) }
	regInvoke(func(c *Call) Val { return bankSend(c, t(c, 2), t(c, 3), c.Args[4]) }, "BankKeeper.SendCoins")
	regInvoke(func(c *Call) Val { return bankSend(c, mod(t(c, 2)), t(c, 3), c.Args[4]) }, "BankKeeper.SendCoinsFromModuleToAccount")
	regInvoke(func(c *Call) Val { return bankSend(c, t(c, 2), mod(t(c, 3)), c.Args[4]) }, "BankKeeper.SendCoinsFromAccountToModule")
	regInvoke(func(c *Call) Val { return bankSend(c, mod(t(c, 2)), mod(t(c, 3)), c.Args[4]) }, "BankKeeper.SendCoinsFromModuleToModule")
	regInvoke(func(c *Call) Val {
		ex := c.Ex
		w := c.ctx(1).W
		coins := ex.asCoins(c.Args[3])
		ex.Calls = append(ex.Calls, "bank.mint")
		if ex.branch(smt.Var(ex.site("bank!fail"), smt.Bool)) {
			return ex.freshErr("bankmint")
		}
		ex.assume(ex.forallDenom(func(d *smt.Term) *smt.Term { return smt.Ge(ex.amtOf(coins, d), smt.IntC(0)) }, coins))
		w.bankDelta(mod(t(c, 2)), coins, +1, true)
		ex.SupplyEvents = append(ex.SupplyEvents, SupplyEvent{Kind: "mint", Coins: coins, Module: t(c, 2), Pos: ex.posOf(c)})
		w.Log = append(w.Log, "bank mint")
		return ex.nilErr()
	}, "BankKeeper.MintCoins")
	regInvoke(func(c *Call) Val {
		// denom metadata lives in its own bank table: no balance, supply or elys state changes
		c.Ex.Calls = append(c.Ex.Calls, "bank.metadata")
		return nil
	}, "BankKeeper.SetDenomMetaData")
	regInvoke(func(c *Call) Val {
		ex := c.Ex
		w := c.ctx(1).W
		coins := ex.asCoins(c.Args[3])
		ex.Calls = append(ex.Calls, "bank.burn")
		if ex.branch(smt.Var(ex.site("bank!fail"), smt.Bool)) {
			return ex.freshErr("bankburn")
		}
		m := mod(t(c, 2))
		ex.assume(ex.forallDenom(func(d *smt.Term) *smt.Term {
			a := ex.amtOf(coins, d)
			return smt.And(smt.Ge(a, smt.IntC(0)), smt.Ge(ex.bal(w, m, d), a))
		}, coins))
		w.bankDelta(m, coins, -1, true)
		ex.SupplyEvents = append(ex.SupplyEvents, SupplyEvent{Kind: "burn", Coins: coins, Module: t(c, 2), Pos: ex.posOf(c)})
		w.Log = append(w.Log, "bank burn")
		return ex.nilErr()
	}, "BankKeeper.BurnCoins")
	balCoin := func(c *Call) Val {
		d := t(c, 3)
		return c.Ex.mkCoin(d, c.Ex.bal(c.ctx(1).W, t(c, 2), d))
	}
	regInvoke(balCoin, "BankKeeper.GetBalance", "BankKeeper.SpendableCoin")
	regInvoke(func(c *Call) Val {
		d, a := c.Ex.coinParts(c.Args[3])
		return smt.Ge(c.Ex.bal(c.ctx(1).W, t(c, 2), d), a)
	}, "BankKeeper.HasBalance")
	regInvoke(func(c *Call) Val {
		// all balances of an address: an abstract coin collection whose amount function is
		// the bank balance at call time
		ex := c.Ex
		w := c.ctx(1).W
		addr := t(c, 2)
		nm := Namer{Prefix: ex.site("allbal")}
		cv := &CoinsV{Sym: &nm}
		ex.fresh++
		bv := smt.Var("d!"+itoa(ex.fresh), smt.Str)
		ex.assume(smt.Forall([]*smt.Term{bv}, smt.And(smt.Eq(ex.amtOf(cv, bv), ex.bal(w, addr, bv)), smt.Ge(ex.amtOf(cv, bv), smt.IntC(0)))))
		return cv
	}, "BankKeeper.GetAllBalances", "BankKeeper.SpendableCoins")
	regInvoke(func(c *Call) Val {
		d := t(c, 2)
		return c.Ex.mkCoin(d, c.Ex.supply(c.ctx(1).W, d))
	}, "BankKeeper.GetSupply")
	regInvoke(func(c *Call) Val { return smt.App("bank!blocked", smt.Bool, t(c, 1)) }, "BankKeeper.BlockedAddr")
	regInvoke(func(c *Call) Val { return smt.App("bank!hasmeta", smt.Bool, t(c, 2)) }, "BankKeeper.HasDenomMetaData")
	regInvoke(func(c *Call) Val {
		return TupleV{c.Ex.symbolic(c.Result.(*types.Tuple).At(0).Type(), Namer{Prefix: "bank!meta", Keys: []*smt.Term{t(c, 2)}}), smt.App("bank!hasmeta", smt.Bool, t(c, 2))}
	}, "BankKeeper.GetDenomMetaData")

	// ---- account keeper ----
	regInvoke(func(c *Call) Val { return smt.App("modaddr", smt.Addr, t(c, 1)) }, "AccountKeeper.GetModuleAddress")
	// GetModuleAccount(ctx, name): an opaque account value that remembers the module name; reading
	// (or creating) the account record moves no balances and writes no elys table
	regInvoke(func(c *Call) Val {
		nt := t(c, 2)
		nm, ok := nt.Name, nt.IsLit() && nt.Sort == smt.Str
		if !ok {
			return c.Ex.externalHavoc(c, "invoke AccountKeeper.GetModuleAccount (symbolic name)")
		}
		return &OpaqueV{T: c.Result, Tag: "modacc:" + nm}
	}, "AccountKeeper.GetModuleAccount")
	regInvoke(func(c *Call) Val {
		if o, ok := c.Ex.force(c.Args[0]).(*OpaqueV); ok && strings.HasPrefix(o.Tag, "modacc:") {
			return smt.App("modaddr", smt.Addr, smt.StrC(strings.TrimPrefix(o.Tag, "modacc:")))
		}
		return c.Ex.externalHavoc(c, "invoke ModuleAccountI.GetAddress")
	}, "ModuleAccountI.GetAddress")
}

type bigIntT = big.Int

// writeFn is the closure returned by CacheContext.
type writeFn struct {
	Parent, Child *CtxV
	c             *ClosureV
}

func itoa(i int) string {
	return strings.TrimSpace(strings.Replace(" "+smt.IntC(int64(i)).String(), " ", "", 1))
}

func (ex *Exec) asStore(v Val) *StoreV {
	v = ex.force(v)
	if iv, ok := v.(*IfaceV); ok {
		v = iv.V
	}
	st, ok := v.(*StoreV)
	if !ok {
		ex.abort("expected store, got %T", v)
	}
	return st
}

// deepForceShallow forces the scalar and struct fields of a value about to be marshalled
// (slices stay lazy: they keep their symbolic identity through the store).
func (ex *Exec) deepForceShallow(v Val) Val {
	return v
}

// makeIterator materialises the rows an iterator will visit: the rows written on this path
// that match the prefix, plus a bounded number of unknown initial rows.
func (ex *Exec) makeIterator(st *StoreV, p *BytesV, reverse bool, c *Call) Val {
	// the iterated table: prefix of store + iterator prefix; keys unknown
	full := st
	if p != nil && !p.Nil {
		ns := *st
		if st.Prefix != nil {
			ns.Prefix = &BytesV{Tag: "cat", Sub: []*BytesV{st.Prefix, p}}
		} else {
			ns.Prefix = p
		}
		full = &ns
	}
	idPrefix, _ := tableID(full, nil)
	it := &IterV{ID: ex.site("iter!" + idPrefix)}
	// a declared prefix family over a table this path has not written: the first position is
	// the extreme matching row
	if ex.Cfg.EnvRef != nil && p != nil && !p.Nil && st.Prefix == nil {
		for _, pf := range ex.Cfg.EnvRef.Specs.Prefixes {
			if pf.Builder != p.Tag {
				continue
			}
			if t := st.W.Tables[pf.Table]; t != nil && len(t.Writes) > 0 {
				break
			}
			if len(p.Args) != len(pf.Fixed) {
				break
			}
			it.Fam, it.W, it.Fixed, it.Reverse = pf, st.W, p.Args, reverse
		}
	}
	return it
}

// asBytes views a byte-slice value (symbolic bytes, or a literal []byte{...}) as BytesV.
func (ex *Exec) asBytes(v Val) *BytesV {
	v = ex.force(v)
	switch b := v.(type) {
	case *BytesV:
		return b
	case *NilV:
		return &BytesV{Nil: true}
	case *SliceV:
		if b.Arr == nil {
			return &BytesV{Nil: true}
		}
		var sb strings.Builder
		sb.WriteString("lit:")
		for i := 0; i < b.Len; i++ {
			t, ok := ex.force(b.Arr.Elems[b.Off+i].V).(*smt.Term)
			c, isC := (*bigIntT)(nil), false
			if ok {
				if ci, ok2 := t.ConstInt(); ok2 {
					c, isC = ci, true
				}
			}
			if !isC {
				ex.abort("byte slice with symbolic elements")
			}
			sb.WriteString(c.Text(16))
			sb.WriteString(".")
		}
		return &BytesV{Tag: sb.String()}
	case *LazyV:
		if isByteSlice(b.T) {
			return ex.force(b).(*BytesV)
		}
	}
	ex.abort("expected bytes, got %T", v)
	return nil
}

func (ex *Exec) posOf(c *Call) string {
	if c.Ins != nil && c.Ins.Pos().IsValid() {
		p := ex.Cfg.Prog.Fset.Position(c.Ins.Pos())
		return shortFile(p.Filename) + ":" + itoa(p.Line)
	}
	return "?"
}

// iterFirst resolves the first position of a prefix-family iterator: nil when no row matches
// (then no matching key is present), otherwise the matching row with the extreme key.
func (ex *Exec) iterFirst(it *IterV) *BytesV {
	if it.firstOK == 1 {
		return it.first
	}
	if it.firstOK == 2 {
		return nil
	}
	pf := it.Fam
	t := it.W.table(ex, pf.Table)
	// arity of the key: fixed + ordered components (in declared positions)
	n := len(pf.Fixed) + len(pf.Order)
	mkKey := func(free func(i int) *smt.Term) []*smt.Term {
		key := make([]*smt.Term, n)
		for k, pos := range pf.Fixed {
			key[pos] = it.Fixed[k]
		}
		for _, pos := range pf.Order {
			key[pos] = free(pos)
		}
		return key
	}
	// sorts of the free components: from the fixed ones' neighbours is unknown; Str for all
	// but the last ordered component, Int for the last (asset/source/time shape)
	sortOf := func(pos int) smt.Sort {
		if pos == pf.Order[len(pf.Order)-1] {
			return smt.Int
		}
		return smt.Str
	}
	ex.fresh++
	id := ex.fresh
	bound := func(pos int) *smt.Term { return smt.Var(fmt.Sprintf("d!%d!k%d", id, pos), sortOf(pos)) }
	var bvs []*smt.Term
	for _, pos := range pf.Order {
		bvs = append(bvs, bound(pos))
	}
	hasB := smt.App(t.Base+"!has", smt.Bool, mkKey(bound)...)
	if ex.branch(smt.Var(it.ID+"!nonempty", smt.Bool)) {
		star := func(pos int) *smt.Term { return smt.Var(fmt.Sprintf("%s!first!k%d", it.ID, pos), sortOf(pos)) }
		key := mkKey(star)
		ex.assume(smt.App(t.Base+"!has", smt.Bool, key...))
		for _, pos := range pf.Order {
			if sortOf(pos) == smt.Int {
				ex.assume(smt.Ge(star(pos), smt.IntC(0)))
			}
		}
		// extremality: every present matching key is <= (reverse) / >= (forward) the first
		var le func(k int) *smt.Term
		le = func(k int) *smt.Term { // bound[k..] <=lex star[k..]
			pos := pf.Order[k]
			a, b := bound(pos), star(pos)
			if it.Reverse {
				// a <= b
			} else {
				a, b = b, a
			}
			var lt, eq *smt.Term
			if sortOf(pos) == smt.Int {
				lt, eq = smt.Lt(a, b), smt.Eq(a, b)
			} else {
				lt, eq = smt.App("strlt", smt.Bool, a, b), smt.Eq(a, b)
			}
			if k == len(pf.Order)-1 {
				return smt.Or(lt, eq)
			}
			return smt.Or(lt, smt.And(eq, le(k+1)))
		}
		ex.assume(smt.Forall(bvs, smt.Implies(hasB, le(0))))
		it.first = &BytesV{Tag: "row", Row: &RowRef{Base: t.Base, Key: key, Table: pf.Table, TKey: key}}
		it.firstOK = 1
		return it.first
	}
	ex.assume(smt.Forall(bvs, smt.Not(hasB)))
	it.firstOK = 2
	return nil
}

// IsTransientKeyExpr: the store-key expression reads a field whose name says it is the
// transient store key (k.transientStoreKey, k.tStoreKey, k.tkey).
func IsTransientKeyExpr(v ssa.Value) bool {
	for i := 0; i < 6 && v != nil; i++ {
		switch x := v.(type) {
		case *ssa.UnOp:
			v = x.X
		case *ssa.MakeInterface:
			v = x.X
		case *ssa.ChangeInterface:
			v = x.X
		case *ssa.FieldAddr:
			st := x.X.Type().Underlying().(*types.Pointer).Elem().Underlying().(*types.Struct)
			return transientFieldName(st.Field(x.Field).Name())
		case *ssa.Field:
			st := x.X.Type().Underlying().(*types.Struct)
			return transientFieldName(st.Field(x.Field).Name())
		default:
			return false
		}
	}
	return false
}

func transientFieldName(n string) bool {
	n = strings.ToLower(n)
	return strings.Contains(n, "transient") || n == "tkey" || n == "tstorekey"
}
