package sym

import (
	"fmt"
	"go/types"
	"sort"
	"strings"

	"govc/smt"
)

// World is the ghost state behind one sdk.Context identity: KV tables, the bank, and the
// declared aggregates. CacheContext clones it; the write closure copies it back.
type World struct {
	Tables map[string]*Table
	Bank   *Bank
	Aggs   map[string]*AggState
	Opaque map[string]int // generation counters of abstractly modelled external state (per tag)
	Log    []string       // chronological list of state-changing primitive operations (for frames)
}

type Table struct {
	ID     string
	Base   string
	Writes []tWrite
}

type tWrite struct {
	Key     []*smt.Term
	Present bool
	Val     *BytesV
	// row-havoc: Present is symbolic
	HavocHas *smt.Term
}

type AggState struct {
	Base   string
	Deltas []aggDelta
}

type aggDelta struct {
	Row  Val // snapshot of the row value
	Key  []*smt.Term
	Sign int
	Cond *smt.Term // the delta applies where this holds (nil: always)
}

type Bank struct {
	Base string
	Ops  []bankOp
}

type bankOp struct {
	KeepSupply bool // a havoc of balances that leaves every supply as it was
	Havoc  bool
	Addr   *smt.Term // nil for supply-only ops
	Coins  Val
	Sign   int
	Supply bool // also changes supply by Sign*coins (mint/burn)
	Fresh  string
	All    bool // havoc every address
}

func NewWorld(base string) *World {
	return &World{
		Tables: map[string]*Table{},
		Bank:   &Bank{Base: base + "bank"},
		Aggs:   map[string]*AggState{},
		Opaque: map[string]int{},
	}
}

func (w *World) Clone() *World {
	c := &World{Tables: map[string]*Table{}, Aggs: map[string]*AggState{}, Opaque: map[string]int{}}
	for k, t := range w.Tables {
		c.Tables[k] = &Table{ID: t.ID, Base: t.Base, Writes: append([]tWrite(nil), t.Writes...)}
	}
	for k, a := range w.Aggs {
		c.Aggs[k] = &AggState{Base: a.Base, Deltas: append([]aggDelta(nil), a.Deltas...)}
	}
	for k, v := range w.Opaque {
		c.Opaque[k] = v
	}
	c.Bank = &Bank{Base: w.Bank.Base, Ops: append([]bankOp(nil), w.Bank.Ops...)}
	c.Log = append([]string(nil), w.Log...)
	return c
}

// Assign makes w identical to src (used by the CacheContext write closure).
func (w *World) Assign(src *World) {
	c := src.Clone()
	w.Tables, w.Aggs, w.Opaque, w.Bank, w.Log = c.Tables, c.Aggs, c.Opaque, c.Bank, c.Log
}

// modOfTable: "commitment:types.ParamsKey" / "amm~:..." -> "commitment" / "amm"
func modOfTable(id string) string {
	if i := strings.Index(id, ":"); i >= 0 {
		id = id[:i]
	}
	return strings.TrimSuffix(id, "~")
}

// genSuffix names the generation of a module's unknown contents: bumped whenever a callee
// may have rewritten the module's tables wholesale, so that tables first looked at after
// such a call do not share symbols with the state before it.
func (w *World) genSuffix(mod string) string {
	g := w.Opaque[mod] + w.Opaque["*"]
	if g == 0 {
		return ""
	}
	return fmt.Sprintf("!g%d.%d", w.Opaque["*"], w.Opaque[mod])
}

func (w *World) table(ex *Exec, id string) *Table {
	t := w.Tables[id]
	if t == nil {
		t = &Table{ID: id, Base: ex.worldBase + "T!" + id + w.genSuffix(modOfTable(id))}
		w.Tables[id] = t
	}
	return t
}

// havocModule: every table of the module may have changed.
func (ex *Exec) havocModule(w *World, mod string) {
	for id := range w.Tables {
		if modOfTable(id) == mod {
			ex.tableHavoc(w, id)
		}
	}
	w.Opaque[mod]++
	for _, d := range ex.Cfg.Aggs {
		if modOfTable(d.TableID) == mod {
			ex.fresh++
			w.Aggs[d.Name] = &AggState{Base: fmt.Sprintf("%sagg!%s!h%d", ex.worldBase, d.Name, ex.fresh)}
		}
	}
	w.Log = append(w.Log, "havoc module "+mod)
}

// ---- coins as amount functions -------------------------------------------------------

// amtOf is the amount of denom d in the coin collection v.
func (ex *Exec) amtOf(v Val, d *smt.Term) *smt.Term {
	switch c := v.(type) {
	case nil:
		return smt.IntC(0)
	case *LazyV:
		nm := c.Nm
		return smt.App(nm.Prefix+"!amt", smt.Int, append(append([]*smt.Term{}, nm.Keys...), d)...)
	case *CoinsV:
		r := smt.IntC(0)
		if c.Sym != nil {
			r = smt.App(c.Sym.Prefix+"!amt", smt.Int, append(append([]*smt.Term{}, c.Sym.Keys...), d)...)
		}
		for _, p := range c.Plus {
			r = smt.Add(r, ex.amtOf(p, d))
		}
		for _, m := range c.Minus {
			r = smt.Sub(r, ex.amtOf(m, d))
		}
		return r
	case *SliceV:
		r := smt.IntC(0)
		for i := 0; i < c.Len; i++ {
			r = smt.Add(r, ex.amtOf(c.Arr.Elems[c.Off+i].V, d))
		}
		return r
	case *StructV: // a single sdk.Coin
		f := ex.forceFields(c)
		return smt.Ite(smt.Eq(d, f[0].(*smt.Term)), f[1].(*smt.Term), smt.IntC(0))
	case *scaledCoins:
		return smt.Mul(c.M, ex.amtOf(c.C, d))
	case *fnCoins:
		return c.F(ex.amtOf(c.C, d))
	case *minCoins:
		return smt.Min(ex.amtOf(c.A, d), ex.amtOf(c.B, d))
	case *mergedV:
		return smt.Ite(c.C, ex.amtOf(ex.asCoins(c.A), d), ex.amtOf(ex.asCoins(c.B), d))
	case *NilV:
		return smt.IntC(0)
	}
	ex.abort("amtOf: unsupported coins value %T", v)
	return nil
}

// support lists denom terms outside which the collection is certainly zero; finite=false
// when a symbolic base is involved.
func (ex *Exec) support(v Val) (ds []*smt.Term, finite bool) {
	finite = true
	switch c := v.(type) {
	case nil:
	case *LazyV:
		return nil, false
	case *CoinsV:
		if c.Sym != nil {
			finite = false
		}
		for _, p := range append(append([]Val{}, c.Plus...), c.Minus...) {
			d2, f2 := ex.support(p)
			ds = append(ds, d2...)
			finite = finite && f2
		}
	case *SliceV:
		for i := 0; i < c.Len; i++ {
			d2, f2 := ex.support(c.Arr.Elems[c.Off+i].V)
			ds = append(ds, d2...)
			finite = finite && f2
		}
	case *StructV:
		f := ex.forceFields(c)
		ds = append(ds, f[0].(*smt.Term))
	case *scaledCoins:
		return ex.support(c.C)
	case *fnCoins:
		return ex.support(c.C)
	case *minCoins:
		d1, f1 := ex.support(c.A)
		d2, f2 := ex.support(c.B)
		if f1 {
			return d1, true
		}
		if f2 {
			return d2, true
		}
		return append(d1, d2...), false
	case *NilV:
	default:
		ex.abort("support: unsupported coins value %T", v)
	}
	// dedupe
	seen := map[*smt.Term]bool{}
	var out []*smt.Term
	for _, d := range ds {
		if !seen[d] {
			seen[d] = true
			out = append(out, d)
		}
	}
	return out, finite
}

// forallDenom builds ∀d. body(d) over the union of the supports of vs (a finite
// conjunction when all supports are finite, an SMT quantifier otherwise).
func (ex *Exec) forallDenom(body func(d *smt.Term) *smt.Term, vs ...Val) *smt.Term {
	var ds []*smt.Term
	finite := true
	for _, v := range vs {
		d2, f2 := ex.support(v)
		ds = append(ds, d2...)
		finite = finite && f2
	}
	if finite {
		var cs []*smt.Term
		seen := map[*smt.Term]bool{}
		for _, d := range ds {
			if !seen[d] {
				seen[d] = true
				cs = append(cs, body(d))
			}
		}
		return smt.And(cs...)
	}
	ex.fresh++
	bv := smt.Var(fmt.Sprintf("d!%d", ex.fresh), smt.Str)
	return smt.Forall([]*smt.Term{bv}, body(bv))
}

// ---- bank ----------------------------------------------------------------------------

func (ex *Exec) bal(w *World, addr, d *smt.Term) *smt.Term {
	b := w.Bank
	r := smt.App(b.Base+"!bal", smt.Int, addr, d)
	for _, op := range b.Ops {
		switch {
		case op.Havoc && op.All:
			r = smt.App(op.Fresh+"!bal", smt.Int, addr, d)
		case op.Havoc:
			r = smt.Ite(smt.Eq(addr, op.Addr), smt.App(op.Fresh+"!bal", smt.Int, addr, d), r)
		case op.Addr != nil:
			a := ex.amtOf(op.Coins, d)
			if op.Sign < 0 {
				a = smt.Neg(a)
			}
			r = smt.Add(r, smt.Ite(smt.Eq(addr, op.Addr), a, smt.IntC(0)))
		}
	}
	return r
}

func (ex *Exec) supply(w *World, d *smt.Term) *smt.Term {
	b := w.Bank
	r := smt.App(b.Base+"!supply", smt.Int, d)
	for _, op := range b.Ops {
		switch {
		case op.Havoc && op.All && !op.KeepSupply:
			r = smt.App(op.Fresh+"!supply", smt.Int, d)
		case op.Supply:
			a := ex.amtOf(op.Coins, d)
			if op.Sign < 0 {
				a = smt.Neg(a)
			}
			r = smt.Add(r, a)
		}
	}
	return r
}

func (w *World) bankDelta(addr *smt.Term, coins Val, sign int, supply bool) {
	w.Bank.Ops = append(w.Bank.Ops, bankOp{Addr: addr, Coins: coins, Sign: sign, Supply: supply})
}

func (ex *Exec) bankHavocAddr(w *World, addr *smt.Term) {
	ex.fresh++
	w.Bank.Ops = append(w.Bank.Ops, bankOp{Havoc: true, Addr: addr, Fresh: fmt.Sprintf("%sbank!h%d", ex.worldBase, ex.fresh)})
}

// bankHavocBalances: any transfers may have happened, nothing was minted or burnt.
func (ex *Exec) bankHavocBalances(w *World) {
	ex.fresh++
	w.Bank.Ops = append(w.Bank.Ops, bankOp{Havoc: true, All: true, KeepSupply: true, Fresh: fmt.Sprintf("%sbank!h%d", ex.worldBase, ex.fresh)})
}

func (ex *Exec) bankHavocAll(w *World) {
	ex.fresh++
	w.Bank.Ops = append(w.Bank.Ops, bankOp{Havoc: true, All: true, Fresh: fmt.Sprintf("%sbank!h%d", ex.worldBase, ex.fresh)})
}

// ---- tables ---------------------------------------------------------------------------

func keysEq(a, b []*smt.Term) *smt.Term {
	if len(a) != len(b) {
		return smt.False
	}
	var cs []*smt.Term
	for i := range a {
		if a[i].Sort != b[i].Sort {
			return smt.False
		}
		cs = append(cs, smt.Eq(a[i], b[i]))
	}
	return smt.And(cs...)
}

// tableID derives the table a (store, key) pair addresses and the key argument tuple.
func tableID(st *StoreV, key *BytesV) (string, []*smt.Term) {
	var tags []string
	var args []*smt.Term
	var walk func(b *BytesV)
	walk = func(b *BytesV) {
		if b == nil || b.Nil {
			return
		}
		if b.Tag == "cat" {
			for _, s := range b.Sub {
				walk(s)
			}
			return
		}
		if b.Tag == "lit:" { // the empty literal []byte{} contributes nothing
			return
		}
		tags = append(tags, b.Tag)
		args = append(args, b.Args...)
	}
	walk(st.Prefix)
	walk(key)
	kind := ""
	if st.Transient {
		kind = "~"
	}
	return st.Module + kind + ":" + strings.Join(tags, "/"), args
}

// tableGet resolves a row. It forks on key equality with earlier writes and on presence
// in the initial contents. Returns nil if absent.
func (ex *Exec) tableGet(w *World, id string, key []*smt.Term) *BytesV {
	t := w.table(ex, id)
	for i := len(t.Writes) - 1; i >= 0; i-- {
		wr := t.Writes[i]
		c := keysEq(key, wr.Key)
		if c.IsFalse() {
			continue
		}
		if c.IsTrue() || ex.branch(c) {
			if wr.HavocHas != nil {
				if ex.branch(wr.HavocHas) {
					return wr.Val
				}
				return nil
			}
			if wr.Present {
				return wr.Val
			}
			return nil
		}
	}
	has := smt.App(t.Base+"!has", smt.Bool, key...)
	if len(key) == 0 {
		has = smt.Var(t.Base+"!has", smt.Bool)
	}
	if ex.branch(has) {
		return &BytesV{Tag: "row", Row: &RowRef{Base: t.Base, Key: key, Table: id, TKey: key}}
	}
	return nil
}

// hasTerm is the presence of a row as a term (no forking): the writes of this path folded over
// the unknown initial contents.
func (ex *Exec) hasTerm(w *World, id string, key []*smt.Term) *smt.Term {
	t := w.table(ex, id)
	r := smt.App(t.Base+"!has", smt.Bool, key...)
	if len(key) == 0 {
		r = smt.Var(t.Base+"!has", smt.Bool)
	}
	for _, wr := range t.Writes {
		c := keysEq(key, wr.Key)
		if c.IsFalse() {
			continue
		}
		var v *smt.Term
		switch {
		case wr.HavocHas != nil:
			v = wr.HavocHas
		default:
			v = smt.BoolC(wr.Present)
		}
		r = smt.Ite(c, v, r)
	}
	return r
}

// rowMerged reads a row without forking: the writes of this path folded (field by field, with
// ite) over the unknown initial row. The value is meaningful only where hasTerm holds.
func (ex *Exec) rowMerged(w *World, id string, key []*smt.Term, t types.Type) Val {
	tb := w.table(ex, id)
	base := &BytesV{Tag: "row", Row: &RowRef{Base: tb.Base, Key: key, Table: id, TKey: key}}
	// the invariants of the initial row are known only where that row exists
	saved := ex.rowGuard
	ex.rowGuard = smt.App(tb.Base+"!has", smt.Bool, key...)
	if len(key) == 0 {
		ex.rowGuard = smt.Var(tb.Base+"!has", smt.Bool)
	}
	cur := ex.unmarshalTo(base, t)
	ex.rowGuard = saved
	for _, wr := range tb.Writes {
		c := keysEq(key, wr.Key)
		if c.IsFalse() || wr.Val == nil {
			continue
		}
		nv := ex.unmarshalTo(wr.Val, t)
		if c.IsTrue() {
			cur = nv
			continue
		}
		cur = ex.mergeVal(c, nv, cur)
	}
	return cur
}

// mergeVal is ite(c, a, b) on executor values of one type.
func (ex *Exec) mergeVal(c *smt.Term, a, b Val) Val {
	a, b = ex.force(a), ex.force(b)
	switch x := a.(type) {
	case *smt.Term:
		if y, ok := b.(*smt.Term); ok && x.Sort == y.Sort {
			return smt.Ite(c, x, y)
		}
	case *StructV:
		if y, ok := b.(*StructV); ok && len(x.F) == len(y.F) {
			r := &StructV{T: x.T, F: make([]Val, len(x.F))}
			for i := range x.F {
				r.F[i] = ex.mergeVal(c, x.F[i], y.F[i])
			}
			return r
		}
	case *TimeV:
		if y, ok := b.(*TimeV); ok {
			return &TimeV{Unix: smt.Ite(c, x.Unix, y.Unix)}
		}
	case *LazyV:
		if y, ok := b.(*LazyV); ok && x.Nm.Prefix == y.Nm.Prefix && len(x.Nm.Keys) == len(y.Nm.Keys) {
			same := true
			for i := range x.Nm.Keys {
				if x.Nm.Keys[i] != y.Nm.Keys[i] {
					same = false
				}
			}
			if same {
				return x
			}
		}
		return &mergedV{C: c, A: a, B: b}
	case *PtrV:
		if y, ok := b.(*PtrV); ok && x.C != nil && y.C != nil {
			return &PtrV{C: &Cell{V: ex.mergeVal(c, ex.load(x), ex.load(y)), T: x.T, Name: "merged"}, T: x.T}
		}
	}
	if a == b {
		return a
	}
	// collections and the like: kept as an unevaluated choice (an operation that needs to
	// look inside aborts the path)
	return &mergedV{C: c, A: a, B: b}
}

// mergedV is an unevaluated ite over values the executor cannot merge structurally.
type mergedV struct {
	C    *smt.Term
	A, B Val
}

func (ex *Exec) tableSet(w *World, id string, key []*smt.Term, val *BytesV) {
	if val != nil && val.Tag == "marshal" {
		ex.rowInvWrite(id, key, val)
	}
	ex.aggUpdate(w, id, key, val)
	t := w.table(ex, id)
	t.Writes = append(t.Writes, tWrite{Key: key, Present: val != nil, Val: val})
	op := "set"
	if val == nil {
		op = "delete"
	}
	w.Log = append(w.Log, op+" "+id)
}

// tableHavocRow replaces one row by an unknown row (used by `modifies T[key]`).
func (ex *Exec) tableHavocRow(w *World, id string, key []*smt.Term) {
	ex.fresh++
	base := fmt.Sprintf("%sT!%s!h%d", ex.worldBase, id, ex.fresh)
	val := &BytesV{Tag: "row", Row: &RowRef{Base: base, Key: nil, Table: id, TKey: key}}
	has := smt.Var(base+"!has", smt.Bool)
	// aggregate contribution of the new unknown row is accounted like a set
	ex.aggUpdateCond(w, id, key, val, has)
	t := w.table(ex, id)
	t.Writes = append(t.Writes, tWrite{Key: key, Val: val, HavocHas: has})
	w.Log = append(w.Log, "havoc-row "+id)
}

func (ex *Exec) tableHavoc(w *World, id string) {
	ex.fresh++
	t := w.table(ex, id)
	t.Base = fmt.Sprintf("%sT!%s!h%d", ex.worldBase, id, ex.fresh)
	t.Writes = nil
	for _, d := range ex.aggsOn(id) {
		w.Aggs[d.Name] = &AggState{Base: fmt.Sprintf("%sagg!%s!h%d", ex.worldBase, d.Name, ex.fresh)}
	}
	w.Log = append(w.Log, "havoc "+id)
}

// ---- aggregates -------------------------------------------------------------------------

// AggDecl is a ghost aggregate: Σ over the rows of a table of Value(row, key, params). A
// grouped sum is written with an ite on the parameter. It is maintained by the semantics of
// the table primitives (set adds the new row's term and removes the old one's), so no code
// is trusted for it; it is exact and unbounded in the number of rows.
type AggDecl struct {
	Name    string
	TableID string
	RowType types.Type
	Params  []string
	Eval    func(ex *Exec, row Val, key []*smt.Term, params []*smt.Term) *smt.Term
}

func (ex *Exec) aggsOn(id string) []*AggDecl {
	var out []*AggDecl
	for _, d := range ex.Cfg.Aggs {
		if d.TableID == id {
			out = append(out, d)
		}
	}
	sort.Slice(out, func(i, j int) bool { return out[i].Name < out[j].Name })
	return out
}

func (ex *Exec) aggState(w *World, name string) *AggState {
	a := w.Aggs[name]
	if a == nil {
		suffix := ""
		for _, d := range ex.Cfg.Aggs {
			if d.Name == name {
				suffix = w.genSuffix(modOfTable(d.TableID))
			}
		}
		a = &AggState{Base: ex.worldBase + "agg!" + name + suffix}
		w.Aggs[name] = a
	}
	return a
}

func (ex *Exec) aggUpdate(w *World, id string, key []*smt.Term, newVal *BytesV) {
	ex.aggUpdateCond(w, id, key, newVal, nil)
}

func (ex *Exec) aggUpdateCond(w *World, id string, key []*smt.Term, newVal *BytesV, newCond *smt.Term) {
	decls := ex.aggsOn(id)
	if len(decls) == 0 {
		return
	}
	// the row being replaced is read without forking: its contribution leaves where it existed
	had := ex.hasTerm(w, id, key)
	for _, d := range decls {
		a := ex.aggState(w, d.Name)
		if !had.IsFalse() {
			a.Deltas = append(a.Deltas, aggDelta{Row: ex.rowMerged(w, id, key, d.RowType), Key: key, Sign: -1, Cond: had})
		}
		if newVal != nil {
			saved := ex.rowGuard
			if newCond != nil {
				ex.rowGuard = newCond
			}
			nr := ex.unmarshalTo(newVal, d.RowType)
			ex.rowGuard = saved
			a.Deltas = append(a.Deltas, aggDelta{Row: nr, Key: key, Sign: +1, Cond: newCond})
		}
	}
}

func (ex *Exec) aggValue(w *World, name string, params []*smt.Term) *smt.Term {
	a := ex.aggState(w, name)
	var decl *AggDecl
	for _, d := range ex.Cfg.Aggs {
		if d.Name == name {
			decl = d
		}
	}
	r := smt.App(a.Base, smt.Int, params...)
	for _, d := range a.Deltas {
		v := decl.Eval(ex, copyDeep(d.Row), d.Key, params)
		if d.Cond != nil && !d.Cond.IsTrue() {
			v = smt.Ite(d.Cond, v, smt.IntC(0))
		}
		if d.Sign < 0 {
			r = smt.Sub(r, v)
		} else {
			r = smt.Add(r, v)
		}
	}
	return r
}
