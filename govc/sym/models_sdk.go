package sym

import (
	"os"
	"fmt"
	"go/types"
	"strings"

	"govc/smt"
)

const sdkT = "github.com/cosmos/cosmos-sdk/types"

func (ex *Exec) mkCoin(d, a *smt.Term) *StructV {
	return &StructV{T: ex.coinType(), F: []Val{d, a}}
}

func (ex *Exec) coinParts(v Val) (d, a *smt.Term) {
	s, ok := ex.force(v).(*StructV)
	if !ok {
		ex.abort("expected sdk.Coin, got %T", v)
	}
	f := ex.forceFields(s)
	return f[0].(*smt.Term), f[1].(*smt.Term)
}

// asCoins normalises any coin collection value for the amount-function operations.
func (ex *Exec) asCoins(v Val) Val {
	v = ex.force(v)
	switch x := v.(type) {
	case *LazyV:
		n := x.Nm
		return &CoinsV{Sym: &n}
	case *NilV:
		return &SliceV{T: ex.coinsType()}
	}
	return v
}

func (ex *Exec) freshErr(what string) *smt.Term {
	return smt.Lit(ex.site("err!"+what), smt.Err)
}

func moduleOfPkg(path string) string {
	// github.com/elys-network/elys/x/<module>/...
	i := strings.Index(path, "/x/")
	if i < 0 {
		return path
	}
	rest := path[i+3:]
	if j := strings.Index(rest, "/"); j >= 0 {
		rest = rest[:j]
	}
	return rest
}

func (c *Call) callerModule() string {
	ex := c.Ex
	// innermost elys function on the stack
	for i := len(ex.stack) - 1; i >= 0; i-- {
		f := ex.stack[i]
		if f.Pkg != nil && isElysPkg(f.Pkg.Pkg) {
			return moduleOfPkg(f.Pkg.Pkg.Path())
		}
		if f.Object() != nil && isElysPkg(f.Object().Pkg()) {
			return moduleOfPkg(f.Object().Pkg().Path())
		}
	}
	return "?"
}

func (c *Call) ctx(i int) *CtxV {
	v, ok := c.Args[i].(*CtxV)
	if !ok {
		c.Ex.abort("%s: argument %d is not a context (%T)", c.Name, i, c.Args[i])
	}
	return v
}

// u64Of decodes stored bytes holding one big-endian uint64.
func (ex *Exec) u64Of(b *BytesV) *smt.Term {
	if b == nil || b.Nil {
		return smt.IntC(0)
	}
	if b.Tag == "u64be" && len(b.Args) == 1 {
		return b.Args[0]
	}
	if len(b.Args) == 1 && b.Args[0].Sort == smt.Int && strings.Contains(strings.ToLower(b.Tag), "uint64") {
		return b.Args[0]
	}
	if b.Row != nil {
		l := smt.App(b.Row.Base+"!u64", smt.Int, b.Row.Key...)
		ex.assume(smt.Ge(l, smt.IntC(0)))
		return l
	}
	l := smt.App("be2u64!"+b.Tag, smt.Int, b.Args...)
	ex.assume(smt.Ge(l, smt.IntC(0)))
	return l
}

func (ex *Exec) unmarshalTo(b *BytesV, t types.Type) Val {
	if bt, ok := t.Underlying().(*types.Basic); ok && bt.Info()&types.IsInteger != 0 {
		return ex.u64Of(b)
	}
	if b == nil || b.Nil {
		return ex.zero(t)
	}
	switch b.Tag {
	case "marshal":
		return copyDeep(b.Obj)
	case "row":
		nm := Namer{Prefix: b.Row.Base + "!row", Keys: b.Row.Key}
		v := ex.symbolic(t, nm)
		ex.rowInvAssume(b.Row, v, t)
		if os.Getenv("GOVC_NOKEYCANON") != "" {
			return v
		}
		return ex.rowKeyFields(b.Row, v, t)
	}
	ex.abort("unmarshal of bytes %s", b.Tag)
	return nil
}

// copyDeep copies a value including the cells reachable through slices and pointers
// (marshalling / unmarshalling never shares memory with the original).
func copyDeep(v Val) Val {
	seen := map[*Cell]*Cell{}
	var rec func(v Val) Val
	rec = func(v Val) Val {
		switch x := v.(type) {
		case *StructV:
			c := x.Copy()
			for i := range c.F {
				c.F[i] = rec(c.F[i])
			}
			return c
		case *SliceV:
			if x.Arr == nil {
				return x
			}
			arr := &ArrV{ElemT: x.Arr.ElemT}
			for i := 0; i < x.Len; i++ {
				old := x.Arr.Elems[x.Off+i]
				arr.Elems = append(arr.Elems, &Cell{V: rec(old.V), T: old.T, Name: old.Name})
			}
			return &SliceV{Arr: arr, Len: x.Len, Cap: x.Len, T: x.T}
		case *PtrV:
			if x.C == nil {
				return x
			}
			nc, ok := seen[x.C]
			if !ok {
				nc = &Cell{T: x.C.T, Name: x.C.Name}
				seen[x.C] = nc
				nc.V = rec(x.C.V)
			}
			return &PtrV{C: nc, Path: x.Path, T: x.T}
		case *LazyV:
			// a lazy value this path has already looked into (and possibly written through)
			// is copied as what it has become, not as its pristine name
			if ce := currentExec; ce != nil {
				if r, ok := ce.sliceMemo[x]; ok {
					return rec(r)
				}
				if r, ok := ce.forceMemo[x]; ok {
					if _, again := r.(*LazyV); !again {
						return rec(r)
					}
				}
			}
			return &LazyV{T: x.T, Nm: x.Nm}
		case *CoinsV:
			c := &CoinsV{Sym: x.Sym}
			for _, p := range x.Plus {
				c.Plus = append(c.Plus, rec(p))
			}
			for _, m := range x.Minus {
				c.Minus = append(c.Minus, rec(m))
			}
			return c
		}
		return v
	}
	return rec(v)
}

func init() {
	t := func(c *Call, i int) *smt.Term { return c.Ex.term(c.Args[i]) }
	S := func(n string) string { return sdkT + "." + n }
	CN := func(n string) string { return "(" + sdkT + ".Coin)." + n }
	CS := func(n string) string { return "(" + sdkT + ".Coins)." + n }

	// ---- Coin ----
	reg(func(c *Call) Val {
		d, a := t(c, 0), t(c, 1)
		if c.Ex.branch(smt.Lt(a, smt.IntC(0))) {
			c.Ex.goPanic("NewCoin: negative amount")
		}
		return c.Ex.mkCoin(d, a)
	}, S("NewCoin"), S("NewInt64Coin"))
	reg(func(c *Call) Val {
		d1, a1 := c.Ex.coinParts(c.Args[0])
		d2, a2 := c.Ex.coinParts(c.Args[1])
		if !c.Ex.branch(smt.Eq(d1, d2)) {
			c.Ex.goPanic("Coin.Add: denom mismatch")
		}
		return c.Ex.mkCoin(d1, smt.Add(a1, a2))
	}, CN("Add"))
	reg(func(c *Call) Val {
		d1, a1 := c.Ex.coinParts(c.Args[0])
		d2, a2 := c.Ex.coinParts(c.Args[1])
		if !c.Ex.branch(smt.Eq(d1, d2)) {
			c.Ex.goPanic("Coin.Sub: denom mismatch")
		}
		r := smt.Sub(a1, a2)
		if c.Ex.branch(smt.Lt(r, smt.IntC(0))) {
			c.Ex.goPanic("Coin.Sub: negative result")
		}
		return c.Ex.mkCoin(d1, r)
	}, CN("Sub"))
	reg(func(c *Call) Val {
		d1, a1 := c.Ex.coinParts(c.Args[0])
		return c.Ex.mkCoin(d1, smt.Add(a1, t(c, 1)))
	}, CN("AddAmount"))
	reg(func(c *Call) Val {
		d1, a1 := c.Ex.coinParts(c.Args[0])
		r := smt.Sub(a1, t(c, 1))
		if c.Ex.branch(smt.Lt(r, smt.IntC(0))) {
			c.Ex.goPanic("Coin.SubAmount: negative result")
		}
		return c.Ex.mkCoin(d1, r)
	}, CN("SubAmount"))
	reg(func(c *Call) Val { _, a := c.Ex.coinParts(c.Args[0]); return smt.Eq(a, smt.IntC(0)) }, CN("IsZero"))
	reg(func(c *Call) Val { _, a := c.Ex.coinParts(c.Args[0]); return smt.Gt(a, smt.IntC(0)) }, CN("IsPositive"))
	reg(func(c *Call) Val { _, a := c.Ex.coinParts(c.Args[0]); return smt.Lt(a, smt.IntC(0)) }, CN("IsNegative"))
	reg(func(c *Call) Val { return smt.False }, CN("IsNil"))
	reg(func(c *Call) Val { d, _ := c.Ex.coinParts(c.Args[0]); return d }, CN("GetDenom"))
	reg(func(c *Call) Val { _, a := c.Ex.coinParts(c.Args[0]); return a }, CN("GetAmount"))
	reg(func(c *Call) Val {
		d, a := c.Ex.coinParts(c.Args[0])
		return smt.App("coinstr", smt.Str, d, a)
	}, CN("String"))
	cmp := func(f func(a, b *smt.Term) *smt.Term) Model {
		return func(c *Call) Val {
			d1, a1 := c.Ex.coinParts(c.Args[0])
			d2, a2 := c.Ex.coinParts(c.Args[1])
			if !c.Ex.branch(smt.Eq(d1, d2)) {
				c.Ex.goPanic("Coin comparison: denom mismatch")
			}
			return f(a1, a2)
		}
	}
	reg(cmp(smt.Ge), CN("IsGTE"))
	reg(cmp(smt.Lt), CN("IsLT"))
	reg(cmp(smt.Le), CN("IsLTE"))
	reg(cmp(smt.Gt), CN("IsGT"))
	reg(func(c *Call) Val {
		d1, a1 := c.Ex.coinParts(c.Args[0])
		d2, a2 := c.Ex.coinParts(c.Args[1])
		return smt.And(smt.Eq(d1, d2), smt.Eq(a1, a2))
	}, CN("IsEqual"), CN("Equal"))
	reg(func(c *Call) Val {
		d, a := c.Ex.coinParts(c.Args[0])
		ok := smt.And(smt.App("validdenom", smt.Bool, d), smt.Ge(a, smt.IntC(0)))
		if c.Ex.branch(ok) {
			return c.Ex.nilErr()
		}
		return c.Ex.freshErr("coinvalidate")
	}, CN("Validate"))
	reg(func(c *Call) Val {
		d, a := c.Ex.coinParts(c.Args[0])
		return smt.And(smt.App("validdenom", smt.Bool, d), smt.Ge(a, smt.IntC(0)))
	}, CN("IsValid"))
	reg(func(c *Call) Val {
		if c.Ex.branch(smt.App("validdenom", smt.Bool, t(c, 0))) {
			return c.Ex.nilErr()
		}
		return c.Ex.freshErr("validatedenom")
	}, S("ValidateDenom"))

	// ---- Coins ----
	reg(func(c *Call) Val {
		// NewCoins(coins...): sanitised sum (zero entries removed, sorted); panics on
		// duplicates / invalid denoms (not modelled: duplicates are summed)
		in := c.Ex.asCoins(c.Args[0])
		if sl, ok := in.(*SliceV); ok {
			for i := 0; i < sl.Len; i++ {
				_, a := c.Ex.coinParts(sl.Arr.Elems[sl.Off+i].V)
				if c.Ex.branch(smt.Lt(a, smt.IntC(0))) {
					c.Ex.goPanic("NewCoins: negative amount")
				}
			}
		}
		return &CoinsV{Plus: []Val{in}}
	}, S("NewCoins"))
	reg(func(c *Call) Val {
		return &CoinsV{Plus: []Val{c.Ex.asCoins(c.Args[0]), c.Ex.asCoins(c.Args[1])}}
	}, CS("Add"))
	reg(func(c *Call) Val {
		a, b := c.Ex.asCoins(c.Args[0]), c.Ex.asCoins(c.Args[1])
		r := &CoinsV{Plus: []Val{a}, Minus: []Val{b}}
		ok := c.Ex.forallDenom(func(d *smt.Term) *smt.Term { return smt.Ge(c.Ex.amtOf(r, d), smt.IntC(0)) }, r)
		if !c.Ex.branch(ok) {
			c.Ex.goPanic("Coins.Sub: negative coin amount")
		}
		return r
	}, CS("Sub"))
	reg(func(c *Call) Val {
		a, b := c.Ex.asCoins(c.Args[0]), c.Ex.asCoins(c.Args[1])
		r := &CoinsV{Plus: []Val{a}, Minus: []Val{b}}
		ok := c.Ex.forallDenom(func(d *smt.Term) *smt.Term { return smt.Ge(c.Ex.amtOf(r, d), smt.IntC(0)) }, r)
		return TupleV{r, smt.Not(ok)}
	}, CS("SafeSub"))
	reg(func(c *Call) Val { return c.Ex.amtOf(c.Ex.asCoins(c.Args[0]), t(c, 1)) }, CS("AmountOf"), CS("AmountOfNoDenomValidation"))
	reg(func(c *Call) Val {
		v := c.Ex.asCoins(c.Args[0])
		return c.Ex.forallDenom(func(d *smt.Term) *smt.Term { return smt.Eq(c.Ex.amtOf(v, d), smt.IntC(0)) }, v)
	}, CS("IsZero"))
	reg(func(c *Call) Val {
		v := c.Ex.asCoins(c.Args[0])
		if sl, ok := v.(*SliceV); ok {
			return smt.BoolC(sl.Len == 0)
		}
		return c.Ex.forallDenom(func(d *smt.Term) *smt.Term { return smt.Eq(c.Ex.amtOf(v, d), smt.IntC(0)) }, v)
	}, CS("Empty"))
	reg(func(c *Call) Val {
		v := c.Ex.asCoins(c.Args[0])
		if sl, ok := v.(*SliceV); ok {
			return smt.IntC(int64(sl.Len))
		}
		sl := c.Ex.forceSlice(v)
		return smt.IntC(int64(sl.Len))
	}, CS("Len"))
	reg(func(c *Call) Val {
		v := c.Ex.asCoins(c.Args[0])
		if sl, ok := v.(*SliceV); ok {
			if sl.Len == 0 {
				return smt.False
			}
			var cs []*smt.Term
			for i := 0; i < sl.Len; i++ {
				_, a := c.Ex.coinParts(sl.Arr.Elems[sl.Off+i].V)
				cs = append(cs, smt.Gt(a, smt.IntC(0)))
			}
			return smt.And(cs...)
		}
		nonneg := c.Ex.forallDenom(func(d *smt.Term) *smt.Term { return smt.Ge(c.Ex.amtOf(v, d), smt.IntC(0)) }, v)
		zero := c.Ex.forallDenom(func(d *smt.Term) *smt.Term { return smt.Eq(c.Ex.amtOf(v, d), smt.IntC(0)) }, v)
		return smt.And(nonneg, smt.Not(zero))
	}, CS("IsAllPositive"))
	reg(func(c *Call) Val {
		v := c.Ex.asCoins(c.Args[0])
		return smt.Not(c.Ex.forallDenom(func(d *smt.Term) *smt.Term { return smt.Ge(c.Ex.amtOf(v, d), smt.IntC(0)) }, v))
	}, CS("IsAnyNegative"))
	reg(func(c *Call) Val {
		// a.IsAllGTE(b): for every denom of b, a >= b (and b non-empty or true)
		a, b := c.Ex.asCoins(c.Args[0]), c.Ex.asCoins(c.Args[1])
		return c.Ex.forallDenom(func(d *smt.Term) *smt.Term { return smt.Ge(c.Ex.amtOf(a, d), c.Ex.amtOf(b, d)) }, b)
	}, CS("IsAllGTE"))
	reg(func(c *Call) Val {
		a, b := c.Ex.asCoins(c.Args[0]), c.Ex.asCoins(c.Args[1])
		return c.Ex.forallDenom(func(d *smt.Term) *smt.Term { return smt.Le(c.Ex.amtOf(a, d), c.Ex.amtOf(b, d)) }, a)
	}, CS("IsAllLTE"))
	reg(func(c *Call) Val {
		// a.IsAnyGT(b): exists denom in b (non-zero in b) with a > b
		a, b := c.Ex.asCoins(c.Args[0]), c.Ex.asCoins(c.Args[1])
		return smt.Not(c.Ex.forallDenom(func(d *smt.Term) *smt.Term {
			return smt.Not(smt.And(smt.Ne(c.Ex.amtOf(b, d), smt.IntC(0)), smt.Gt(c.Ex.amtOf(a, d), c.Ex.amtOf(b, d))))
		}, b))
	}, CS("IsAnyGT"))
	reg(func(c *Call) Val {
		a, b := c.Ex.asCoins(c.Args[0]), c.Ex.asCoins(c.Args[1])
		return smt.Not(c.Ex.forallDenom(func(d *smt.Term) *smt.Term {
			return smt.Not(smt.And(smt.Ne(c.Ex.amtOf(b, d), smt.IntC(0)), smt.Ge(c.Ex.amtOf(a, d), c.Ex.amtOf(b, d))))
		}, b))
	}, CS("IsAnyGTE"))
	reg(func(c *Call) Val {
		a, b := c.Ex.asCoins(c.Args[0]), c.Ex.asCoins(c.Args[1])
		return c.Ex.forallDenom(func(d *smt.Term) *smt.Term { return smt.Eq(c.Ex.amtOf(a, d), c.Ex.amtOf(b, d)) }, a, b)
	}, CS("IsEqual"), CS("Equal"))
	reg(func(c *Call) Val { return smt.App("coinsstr", smt.Str, smt.Var(c.Ex.freshName("coins"), smt.Obj)) }, CS("String"))
	reg(func(c *Call) Val { return c.Args[0] }, CS("Sort"))
	reg(func(c *Call) Val {
		v := c.Ex.asCoins(c.Args[0])
		ok := c.Ex.forallDenom(func(d *smt.Term) *smt.Term { return smt.Ge(c.Ex.amtOf(v, d), smt.IntC(0)) }, v)
		if sl, isSl := v.(*SliceV); isSl {
			var cs []*smt.Term
			for i := 0; i < sl.Len; i++ {
				_, a := c.Ex.coinParts(sl.Arr.Elems[sl.Off+i].V)
				cs = append(cs, smt.Gt(a, smt.IntC(0)))
			}
			ok = smt.And(cs...)
		}
		if c.Ex.branch(smt.And(ok, smt.Var(c.Ex.site("coinsvalid"), smt.Bool))) {
			return c.Ex.nilErr()
		}
		return c.Ex.freshErr("coinsvalidate")
	}, CS("Validate"))
	reg(func(c *Call) Val {
		v := c.Ex.asCoins(c.Args[0])
		m := t(c, 1)
		return &CoinsV{Plus: []Val{&scaledCoins{v, m}}}
	}, CS("MulInt"))
	reg(func(c *Call) Val {
		return &CoinsV{Plus: []Val{&minCoins{c.Ex.asCoins(c.Args[0]), c.Ex.asCoins(c.Args[1])}}}
	}, CS("Min"))

	// ---- DecCoins: the same amount functions, amounts scaled by 10^18 ----
	DCS := func(n string) string { return "(" + sdkT + ".DecCoins)." + n }
	reg(func(c *Call) Val {
		return &CoinsV{Plus: []Val{&fnCoins{C: c.Ex.asCoins(c.Args[0]), F: func(x *smt.Term) *smt.Term { return smt.Mul(tE18(), x) }}}}
	}, S("NewDecCoinsFromCoins"))
	reg(func(c *Call) Val {
		ex := c.Ex
		d := t(c, 1)
		return &CoinsV{Plus: []Val{&fnCoins{C: ex.asCoins(c.Args[0]), F: ex.decMulFn(d, truncE18, "multrunc")}}}
	}, DCS("MulDecTruncate"))
	reg(func(c *Call) Val {
		ex := c.Ex
		d := t(c, 1)
		return &CoinsV{Plus: []Val{&fnCoins{C: ex.asCoins(c.Args[0]), F: ex.decMulFn(d, rhe, "mul")}}}
	}, DCS("MulDec"))
	reg(func(c *Call) Val {
		v := c.Ex.asCoins(c.Args[0])
		whole := &CoinsV{Plus: []Val{&fnCoins{C: v, F: func(x *smt.Term) *smt.Term { return smt.TDiv(x, tE18()) }}}}
		change := &CoinsV{Plus: []Val{&fnCoins{C: v, F: func(x *smt.Term) *smt.Term { return smt.Sub(x, smt.Mul(tE18(), smt.TDiv(x, tE18()))) }}}}
		return TupleV{whole, change}
	}, DCS("TruncateDecimal"))
	reg(func(c *Call) Val {
		return &CoinsV{Plus: []Val{c.Ex.asCoins(c.Args[0]), c.Ex.asCoins(c.Args[1])}}
	}, DCS("Add"))
	reg(func(c *Call) Val {
		a, b := c.Ex.asCoins(c.Args[0]), c.Ex.asCoins(c.Args[1])
		r := &CoinsV{Plus: []Val{a}, Minus: []Val{b}}
		ok := c.Ex.forallDenom(func(d *smt.Term) *smt.Term { return smt.Ge(c.Ex.amtOf(r, d), smt.IntC(0)) }, r)
		if !c.Ex.branch(ok) {
			c.Ex.goPanic("DecCoins.Sub: negative coin amount")
		}
		return r
	}, DCS("Sub"))
	reg(func(c *Call) Val { return c.Ex.amtOf(c.Ex.asCoins(c.Args[0]), t(c, 1)) }, DCS("AmountOf"))
	reg(func(c *Call) Val {
		v := c.Ex.asCoins(c.Args[0])
		return c.Ex.forallDenom(func(d *smt.Term) *smt.Term { return smt.Eq(c.Ex.amtOf(v, d), smt.IntC(0)) }, v)
	}, DCS("IsZero"), DCS("Empty"))
	reg(func(c *Call) Val {
		v := c.Ex.asCoins(c.Args[0])
		nonneg := c.Ex.forallDenom(func(d *smt.Term) *smt.Term { return smt.Ge(c.Ex.amtOf(v, d), smt.IntC(0)) }, v)
		zero := c.Ex.forallDenom(func(d *smt.Term) *smt.Term { return smt.Eq(c.Ex.amtOf(v, d), smt.IntC(0)) }, v)
		return smt.And(nonneg, smt.Not(zero))
	}, DCS("IsAllPositive"))
	reg(func(c *Call) Val {
		v := c.Ex.asCoins(c.Args[0])
		d := t(c, 1)
		a := c.Ex.amtOf(v, d)
		return TupleV{smt.Ne(a, smt.IntC(0)), c.Ex.mkCoin(d, a)}
	}, CS("Find"))

	// ---- errors ----
	wrap := func(c *Call) Val { return c.Args[0] }
	reg(wrap, "cosmossdk.io/errors.Wrap", "cosmossdk.io/errors.Wrapf", "(*cosmossdk.io/errors.Error).Wrap", "(*cosmossdk.io/errors.Error).Wrapf",
		"github.com/pkg/errors.Wrap", "github.com/pkg/errors.Wrapf", "github.com/cosmos/cosmos-sdk/types/errors.Wrap", "github.com/cosmos/cosmos-sdk/types/errors.Wrapf")
	reg(func(c *Call) Val { return smt.App("errmsg", smt.Str, t(c, 0)) }, "(*cosmossdk.io/errors.Error).Error")
	reg(func(c *Call) Val { return smt.Eq(t(c, 0), t(c, 1)) }, "errors.Is", "cosmossdk.io/errors.IsOf", "(*cosmossdk.io/errors.Error).Is")
	newErr := func(c *Call) Val {
		tag := "new"
		if c.Ins != nil {
			pos := c.Ex.Cfg.Prog.Fset.Position(c.Ins.Pos())
			tag = fmt.Sprintf("%s:%d", shortFile(pos.Filename), pos.Line)
		}
		return smt.Lit("err@"+tag, smt.Err)
	}
	reg(newErr, "errors.New", "fmt.Errorf", "google.golang.org/grpc/status.Error", "google.golang.org/grpc/status.Errorf", "cosmossdk.io/errors.New", "github.com/pkg/errors.New", "github.com/pkg/errors.Errorf")

	// ---- fmt ----
	reg(func(c *Call) Val {
		var ks []*smt.Term
		for _, a := range c.Args {
			ks = append(ks, c.Ex.scalarsIn(a)...)
		}
		// constant format with integer / string verbs: a string template
		if len(c.Args) >= 1 && c.Name == "fmt.Sprintf" {
			if f, ok := c.Ex.force(c.Args[0]).(*smt.Term); ok && f.IsLit() {
				var as []*smt.Term
				scalarOnly := true
				if len(c.Args) > 1 {
					if sl, ok := c.Ex.force(c.Args[1]).(*SliceV); ok {
						for i := 0; i < sl.Len; i++ {
							v := c.Ex.force(sl.Arr.Elems[sl.Off+i].V)
							if iv, ok := v.(*IfaceV); ok {
								v = c.Ex.force(iv.V)
							}
							if t, ok := v.(*smt.Term); ok {
								as = append(as, t)
							} else {
								scalarOnly = false
							}
						}
					} else {
						scalarOnly = false
					}
				}
				if scalarOnly {
					if t, ok := sprintfTemplate(f.Name, as); ok {
						return t
					}
				}
			}
		}
		return smt.App(c.Ex.callSiteTag(c, "sprintf"), smt.Str, ks...)
	}, "fmt.Sprintf", "fmt.Sprint", "fmt.Sprintln")
	reg(func(c *Call) Val { return smt.App("itoa", smt.Str, t(c, 0)) }, "strconv.Itoa")
	reg(func(c *Call) Val { return smt.App("formatuint", smt.Str, t(c, 0), t(c, 1)) }, "strconv.FormatUint", "strconv.FormatInt")
	reg(func(c *Call) Val { return smt.App("strings.HasPrefix", smt.Bool, t(c, 0), t(c, 1)) }, "strings.HasPrefix")
	reg(func(c *Call) Val { return smt.App("strings.Contains", smt.Bool, t(c, 0), t(c, 1)) }, "strings.Contains")
	reg(func(c *Call) Val { return smt.App("strings.ToLower", smt.Str, t(c, 0)) }, "strings.ToLower")
	reg(func(c *Call) Val { return smt.App("strings.ToUpper", smt.Str, t(c, 0)) }, "strings.ToUpper")
	reg(func(c *Call) Val { return smt.App("strings.TrimSpace", smt.Str, t(c, 0)) }, "strings.TrimSpace")

	// ---- addresses ----
	reg(func(c *Call) Val { return smt.App("modaddr", smt.Addr, t(c, 0)) }, "github.com/cosmos/cosmos-sdk/x/auth/types.NewModuleAddress")
	reg(func(c *Call) Val {
		// address.Module(name) without derivation keys is the module address of that name
		if len(c.Args) == 2 {
			if sl, ok := c.Ex.force(c.Args[1]).(*SliceV); ok && sl.Len == 0 {
				return smt.App("modaddr", smt.Addr, c.Ex.term(c.Args[0]))
			}
			if _, ok := c.Ex.force(c.Args[1]).(*NilV); ok {
				return smt.App("modaddr", smt.Addr, c.Ex.term(c.Args[0]))
			}
		}
		var ks []*smt.Term
		for _, a := range c.Args {
			a = c.Ex.force(a)
			if sl, ok := a.(*SliceV); ok { // variadic [][]byte
				for i := 0; i < sl.Len; i++ {
					if b, ok := c.Ex.force(sl.Arr.Elems[sl.Off+i].V).(*BytesV); ok {
						kk, _ := c.Ex.keyArgs([]Val{b})
						ks = append(ks, kk...)
					}
				}
				continue
			}
			ks = append(ks, c.Ex.scalarsIn(a)...)
		}
		return smt.App("addrfn!address.Module", smt.Addr, ks...)
	}, "github.com/cosmos/cosmos-sdk/types/address.Module")
	reg(func(c *Call) Val { return unbech32(t(c, 0)) }, S("MustAccAddressFromBech32"))
	reg(func(c *Call) Val {
		s := t(c, 0)
		valid := validBech32(s)
		if c.Ex.branch(valid) {
			return TupleV{unbech32(s), c.Ex.nilErr()}
		}
		return TupleV{smt.Lit("nil", smt.Addr), c.Ex.freshErr("bech32")}
	}, S("AccAddressFromBech32"), S("ValAddressFromBech32"))
	reg(func(c *Call) Val { return bech32(t(c, 0)) }, "("+sdkT+".AccAddress).String", "("+sdkT+".ValAddress).String")
	reg(func(c *Call) Val { return smt.Eq(t(c, 0), smt.Lit("nil", smt.Addr)) }, "("+sdkT+".AccAddress).Empty", "("+sdkT+".ValAddress).Empty")
	reg(func(c *Call) Val {
		other := c.Ex.force(c.Args[1])
		if iv, ok := other.(*IfaceV); ok {
			other = iv.V
		}
		return smt.Eq(t(c, 0), c.Ex.term(other))
	}, "("+sdkT+".AccAddress).Equals", "("+sdkT+".ValAddress).Equals")
	reg(func(c *Call) Val { return &BytesV{Tag: "addr", Args: []*smt.Term{t(c, 0)}} }, "("+sdkT+".AccAddress).Bytes", "("+sdkT+".ValAddress).Bytes")
	reg(func(c *Call) Val {
		b := c.Args[0].(*BytesV)
		return &BytesV{Tag: "lenprefix", Sub: nil, Args: append([]*smt.Term{smt.Lit("tag:"+b.Tag, smt.Key)}, b.Args...)}
	}, "github.com/cosmos/cosmos-sdk/types/address.MustLengthPrefix")
	reg(func(c *Call) Val { return &BytesV{Tag: "u64be", Args: []*smt.Term{t(c, 0)}} }, S("Uint64ToBigEndian"))
	reg(func(c *Call) Val {
		b := c.Args[0].(*BytesV)
		if b.Tag == "u64be" && len(b.Args) == 1 {
			return b.Args[0]
		}
		if len(b.Args) == 1 && b.Args[0].Sort == smt.Int && strings.Contains(strings.ToLower(b.Tag), "uint64") {
			return b.Args[0]
		}
		if b.Row != nil {
			l := smt.App(b.Row.Base+"!u64", smt.Int, b.Row.Key...)
			c.Ex.assume(smt.Ge(l, smt.IntC(0)))
			return l
		}
		if b.Nil {
			return smt.IntC(0)
		}
		l := smt.App("be2u64!"+b.Tag, smt.Int, b.Args...)
		c.Ex.assume(smt.Ge(l, smt.IntC(0)))
		return l
	}, S("BigEndianToUint64"))

	// ---- encoding/binary ----
	reg(func(c *Call) Val {
		// PutUint64(bz, v): the buffer now holds the big-endian encoding of v
		b, ok := c.Args[1].(*BytesV)
		if !ok {
			c.Ex.abort("PutUint64 into %T", c.Args[1])
		}
		b.Tag, b.Args, b.Nil, b.Sub, b.Obj, b.Row = "u64be", []*smt.Term{t(c, 2)}, false, nil, nil, nil
		return nil
	}, "(encoding/binary.bigEndian).PutUint64")
	reg(func(c *Call) Val {
		b := c.Args[1].(*BytesV)
		if b.Tag == "u64be" && len(b.Args) == 1 {
			return b.Args[0]
		}
		// an abstracted encoder of one uint64 (types.GetUint64Bytes and the like)
		if len(b.Args) == 1 && b.Args[0].Sort == smt.Int && strings.Contains(strings.ToLower(b.Tag), "uint64") {
			return b.Args[0]
		}
		if b.Row != nil {
			l := smt.App(b.Row.Base+"!u64", smt.Int, b.Row.Key...)
			c.Ex.assume(smt.Ge(l, smt.IntC(0)))
			return l
		}
		l := smt.App("be2u64!"+b.Tag, smt.Int, b.Args...)
		c.Ex.assume(smt.Ge(l, smt.IntC(0)))
		return l
	}, "(encoding/binary.bigEndian).Uint64")

	// ---- time ----
	reg(func(c *Call) Val { return c.Args[0].(*TimeV).Unix }, "(time.Time).Unix")
	reg(func(c *Call) Val { return smt.Mul(smt.IntC(1000000000), c.Args[0].(*TimeV).Unix) }, "(time.Time).UnixNano")
	reg(func(c *Call) Val { return smt.Mul(smt.IntC(1000), c.Args[0].(*TimeV).Unix) }, "(time.Time).UnixMilli")
	reg(func(c *Call) Val { return c.Args[0] }, "(time.Time).UTC", "(time.Time).Local", "(time.Time).Round", "(time.Time).Truncate")
	reg(func(c *Call) Val {
		// Duration is in nanoseconds; only whole seconds are tracked
		return &TimeV{Unix: smt.Add(c.Args[0].(*TimeV).Unix, smt.TDiv(t(c, 1), smt.IntC(1000000000)))}
	}, "(time.Time).Add")
	reg(func(c *Call) Val {
		return smt.Mul(smt.IntC(1000000000), smt.Sub(c.Args[0].(*TimeV).Unix, c.Args[1].(*TimeV).Unix))
	}, "(time.Time).Sub")
	reg(func(c *Call) Val { return smt.Lt(c.Args[0].(*TimeV).Unix, c.Args[1].(*TimeV).Unix) }, "(time.Time).Before")
	reg(func(c *Call) Val { return smt.Gt(c.Args[0].(*TimeV).Unix, c.Args[1].(*TimeV).Unix) }, "(time.Time).After")
	reg(func(c *Call) Val { return smt.Eq(c.Args[0].(*TimeV).Unix, c.Args[1].(*TimeV).Unix) }, "(time.Time).Equal")
	reg(func(c *Call) Val { return smt.Eq(c.Args[0].(*TimeV).Unix, smt.IntC(-62135596800)) }, "(time.Time).IsZero")
	reg(func(c *Call) Val { return &TimeV{Unix: t(c, 0)} }, "time.Unix")
	reg(func(c *Call) Val { return smt.App("timestr", smt.Str, c.Args[0].(*TimeV).Unix) }, "(time.Time).String", "(time.Time).Format")
	reg(func(c *Call) Val {
		c.Ex.Calls = append(c.Ex.Calls, "nondeterminism: time.Now")
		return &TimeV{Unix: smt.Var(c.Ex.freshName("wallclock"), smt.Int)}
	}, "time.Now")
	reg(func(c *Call) Val { return smt.App("durfloat", smt.Obj, t(c, 0)) }, "(time.Duration).Seconds", "(time.Duration).Hours", "(time.Duration).Minutes")
	reg(func(c *Call) Val { return smt.TDiv(t(c, 0), smt.IntC(1000000)) }, "(time.Duration).Milliseconds")
}

// minCoins is the pointwise minimum (Coins.Min; amounts of valid coins are non-negative).
type minCoins struct{ A, B Val }

// decMulFn is x -> x * d (18-digit product with the given rounding) as a function that may be
// applied under a quantifier over denoms: exact when d is constant or decimals are modelled exactly;
// otherwise an uninterpreted function whose sign/zero/shrink facts are asserted once, quantified over x.
func (ex *Exec) decMulFn(d *smt.Term, round func(*smt.Term) *smt.Term, tag string) func(*smt.Term) *smt.Term {
	if isConst(d) || !ex.Cfg.DecAbstract {
		return func(x *smt.Term) *smt.Term { return round(smt.Mul(x, d)) }
	}
	f := func(x *smt.Term) *smt.Term { return smt.App("decfn"+tag, smt.Int, x, d) }
	ex.fresh++
	x := smt.Var(fmt.Sprintf("x!%d", ex.fresh), smt.Int)
	z, one := smt.IntC(0), tE18()
	r := f(x)
	ex.assume(smt.Forall([]*smt.Term{x}, smt.And(
		smt.Implies(smt.Or(smt.Eq(x, z), smt.Eq(d, z)), smt.Eq(r, z)),
		smt.Implies(smt.And(smt.Ge(x, z), smt.Ge(d, z)), smt.Ge(r, z)),
		smt.Implies(smt.And(smt.Ge(x, z), smt.Ge(d, z), smt.Le(d, one)), smt.Le(r, x)),
		smt.Implies(smt.Eq(d, one), smt.Eq(r, x)),
	)))
	return f
}

// fnCoins applies a function with F(0) = 0 to every amount (DecCoins conversions and products).
type fnCoins struct {
	C Val
	F func(*smt.Term) *smt.Term
}

// scaledCoins is coins * integer (Coins.MulInt).
type scaledCoins struct {
	C Val
	M *smt.Term
}

func shortFile(f string) string {
	if i := strings.Index(f, "/x/"); i >= 0 {
		return f[i+1:]
	}
	return f
}

func (ex *Exec) callSiteTag(c *Call, kind string) string {
	if c.Ins != nil {
		pos := ex.Cfg.Prog.Fset.Position(c.Ins.Pos())
		return fmt.Sprintf("%s@%s:%d", kind, shortFile(pos.Filename), pos.Line)
	}
	return ex.site(kind)
}

// scalarsIn collects the scalar terms in a (possibly boxed / variadic) argument.
func (ex *Exec) scalarsIn(v Val) []*smt.Term {
	v = ex.force(v)
	switch x := v.(type) {
	case *smt.Term:
		return []*smt.Term{x}
	case *IfaceV:
		return ex.scalarsIn(x.V)
	case *SliceV:
		var out []*smt.Term
		for i := 0; i < x.Len; i++ {
			out = append(out, ex.scalarsIn(x.Arr.Elems[x.Off+i].V)...)
		}
		return out
	case *BytesV:
		return x.Args
	case *TimeV:
		return []*smt.Term{x.Unix}
	}
	return nil
}

func bech32(a *smt.Term) *smt.Term {
	if a.Op == "app" && a.Name == "unbech32" {
		return a.Args[0]
	}
	return smt.App("bech32", smt.Str, a)
}

func unbech32(s *smt.Term) *smt.Term {
	if s.Op == "app" && s.Name == "bech32" {
		return s.Args[0]
	}
	return smt.App("unbech32", smt.Addr, s)
}

func validBech32(s *smt.Term) *smt.Term {
	if s.Op == "app" && s.Name == "bech32" {
		return smt.True
	}
	return smt.App("validbech32", smt.Bool, s)
}

// currentExec is the path being explored (exploration is sequential; only solving is parallel).
var currentExec *Exec
