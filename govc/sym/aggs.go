package sym

import (
	"fmt"
	"go/types"
	"strings"

	"govc/smt"
)

// lookupType resolves "pkg.Type" as seen from the package of a contract file.
func (e *Env) LookupType(fromPkg, name string) (types.Type, error) { return e.lookupType(fromPkg, name) }

func (e *Env) lookupType(fromPkg, name string) (types.Type, error) {
	parts := strings.SplitN(name, ".", 2)
	if len(parts) != 2 {
		return nil, fmt.Errorf("type %q must be package-qualified", name)
	}
	var from *types.Package
	for _, p := range e.Cfg.Prog.AllPackages() {
		if p.Pkg.Path() == fromPkg {
			from = p.Pkg
		}
	}
	var cands []*types.Package
	if from != nil {
		for _, imp := range from.Imports() {
			if imp.Name() == parts[0] {
				cands = append(cands, imp)
			}
		}
	}
	// sibling "<module>/types"
	if i := strings.LastIndex(fromPkg, "/"); i >= 0 {
		sib := fromPkg[:i] + "/" + parts[0]
		for _, p := range e.Cfg.Prog.AllPackages() {
			if p.Pkg.Path() == sib {
				cands = append([]*types.Package{p.Pkg}, cands...)
			}
		}
	}
	if alias, ok := pkgAliases[parts[0]]; ok {
		for _, p := range e.Cfg.Prog.AllPackages() {
			if p.Pkg.Path() == alias {
				cands = append(cands, p.Pkg)
			}
		}
	}
	for _, c := range cands {
		if obj := c.Scope().Lookup(parts[1]); obj != nil {
			if tn, ok := obj.(*types.TypeName); ok {
				return tn.Type(), nil
			}
		}
	}
	return nil, fmt.Errorf("type %q not found from %s", name, fromPkg)
}

// BindAggs turns the parsed aggregate declarations into executable ghost aggregates.
func (e *Env) BindAggs() error {
	for _, a := range e.Specs.Aggs {
		rt, err := e.lookupType(a.PkgPath, a.RowType)
		if err != nil {
			return fmt.Errorf("%s: aggregate %s: %v", a.File, a.Name, err)
		}
		a := a
		var pkg *types.Package
		for _, p := range e.Cfg.Prog.AllPackages() {
			if p.Pkg.Path() == a.PkgPath {
				pkg = p.Pkg
			}
		}
		d := &AggDecl{Name: a.Name, TableID: a.Table, RowType: rt, Params: a.Params}
		d.Eval = func(ex *Exec, row Val, key []*smt.Term, params []*smt.Term) *smt.Term {
			ev := &evalEnv{ex: ex, vars: map[string]tval{}, oldVars: map[string]tval{}, specs: e.Specs, pkg: pkg}
			ev.vars["row"] = tval{row, rt}
			for i, k := range key {
				ev.vars[fmt.Sprintf("key%d", i)] = tval{k, nil}
			}
			if len(params) != len(a.Params) {
				ex.abort("aggregate %s expects %d parameters", a.Name, len(a.Params))
			}
			for i, p := range a.Params {
				ev.vars[p] = tval{params[i], nil}
			}
			ex.inSpec++
			defer func() { ex.inSpec-- }()
			return ex.term(ev.eval(a.Value).V)
		}
		e.Cfg.Aggs = append(e.Cfg.Aggs, d)
	}
	return nil
}

// BindRowInvs resolves the row types of the declared row invariants.
func (e *Env) BindRowInvs() error {
	for _, r := range e.Specs.RowInvs {
		rt, err := e.lookupType(r.PkgPath, r.RowType)
		if err != nil {
			return fmt.Errorf("%s:%d: rowinv %s: %v", r.File, r.Line, r.Name, err)
		}
		r.rowT = rt
		for _, p := range e.Cfg.Prog.AllPackages() {
			if p.Pkg.Path() == r.PkgPath {
				r.pkg = p.Pkg
			}
		}
	}
	return nil
}

func (ex *Exec) rowInvEval(r *RowInv, row Val, key []*smt.Term) *smt.Term {
	ev := &evalEnv{ex: ex, vars: map[string]tval{}, oldVars: map[string]tval{}, specs: ex.Cfg.EnvRef.Specs, pkg: r.pkg}
	ev.vars["row"] = tval{row, r.rowT}
	for i, k := range key {
		ev.vars[fmt.Sprintf("key%d", i)] = tval{k, nil}
	}
	ex.inSpec++
	defer func() { ex.inSpec-- }()
	return ev.bool(r.Expr)
}

// rowInvAssume: a row of the unknown initial contents satisfies the table's invariants.
func (ex *Exec) rowInvAssume(ref *RowRef, row Val, t types.Type) {
	if ref.Table == "" || ex.Cfg.EnvRef == nil {
		return
	}
	memo := ref.Base + "|" + fmt.Sprint(len(ref.Key))
	for _, k := range ref.TKey {
		memo += fmt.Sprintf(",%d", k.ID())
	}
	if ex.rowInvDone == nil {
		ex.rowInvDone = map[string]bool{}
	}
	if ex.rowGuard != nil {
		memo += "|guarded"
	}
	if ex.rowInvDone[memo] {
		return
	}
	ex.rowInvDone[memo] = true
	for _, r := range ex.Cfg.EnvRef.Specs.RowInvs {
		if r.Table != ref.Table || !types.Identical(r.rowT, t) {
			continue
		}
		r := r
		nm := Namer{Prefix: ref.Base + "!row", Keys: ref.Key}
		guard := ex.rowGuard
		ex.assumeSpec(func() *smt.Term {
			// a fresh copy of the symbolic row: same leaves, no sharing with the program's copy
			inv := ex.rowInvEval(r, ex.symbolic(t, nm), ref.TKey)
			if guard != nil {
				return smt.Implies(guard, inv)
			}
			return inv
		})
	}
}

// rowInvWrite: every write must re-establish the table's row invariants.
func (ex *Exec) rowInvWrite(id string, key []*smt.Term, val *BytesV) {
	if ex.Cfg.EnvRef == nil || ex.inSpec > 0 {
		return
	}
	for _, r := range ex.Cfg.EnvRef.Specs.RowInvs {
		if r.Table != id {
			continue
		}
		row := copyDeep(val.Obj)
		ex.oblige(ex.TopKey+"/rowinv:"+r.Name, ex.rowInvEval(r, row, key), "write to "+id)
	}
}
