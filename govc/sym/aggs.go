package sym

import (
	"fmt"
	"go/types"
	"strings"

	"govc/smt"
)

// lookupType resolves "pkg.Type" as seen from the package of a contract file.
func (e *Env) lookupType(fromPkg, name string) (types.Type, error) {
	parts := strings.SplitN(name, ".", 2)
	if len(parts) != 2 {
		return nil, fmt.Errorf("type %q must be package-qualified", name)
	}
	var from *types.Package
	for _, p := range e.Cfg.Prog.AllPackages() {
		if p.Pkg.Path() == fromPkg {
			from = p.Pkg
		}
	}
	var cands []*types.Package
	if from != nil {
		for _, imp := range from.Imports() {
			if imp.Name() == parts[0] {
				cands = append(cands, imp)
			}
		}
	}
	// sibling "<module>/types"
	if i := strings.LastIndex(fromPkg, "/"); i >= 0 {
		sib := fromPkg[:i] + "/" + parts[0]
		for _, p := range e.Cfg.Prog.AllPackages() {
			if p.Pkg.Path() == sib {
				cands = append([]*types.Package{p.Pkg}, cands...)
			}
		}
	}
	if alias, ok := pkgAliases[parts[0]]; ok {
		for _, p := range e.Cfg.Prog.AllPackages() {
			if p.Pkg.Path() == alias {
				cands = append(cands, p.Pkg)
			}
		}
	}
	for _, c := range cands {
		if obj := c.Scope().Lookup(parts[1]); obj != nil {
			if tn, ok := obj.(*types.TypeName); ok {
				return tn.Type(), nil
			}
		}
	}
	return nil, fmt.Errorf("type %q not found from %s", name, fromPkg)
}

// BindAggs turns the parsed aggregate declarations into executable ghost aggregates.
func (e *Env) BindAggs() error {
	for _, a := range e.Specs.Aggs {
		rt, err := e.lookupType(a.PkgPath, a.RowType)
		if err != nil {
			return fmt.Errorf("%s: aggregate %s: %v", a.File, a.Name, err)
		}
		a := a
		var pkg *types.Package
		for _, p := range e.Cfg.Prog.AllPackages() {
			if p.Pkg.Path() == a.PkgPath {
				pkg = p.Pkg
			}
		}
		d := &AggDecl{Name: a.Name, TableID: a.Table, RowType: rt}
		d.Eval = func(ex *Exec, row Val, key []*smt.Term) ([]*smt.Term, *smt.Term) {
			ev := &evalEnv{ex: ex, vars: map[string]tval{}, oldVars: map[string]tval{}, specs: e.Specs, pkg: pkg}
			ev.vars["row"] = tval{row, rt}
			for i, k := range key {
				ev.vars[fmt.Sprintf("key%d", i)] = tval{k, nil}
			}
			var g []*smt.Term
			for _, ge := range a.Group {
				g = append(g, ex.term(ev.eval(ge).V))
			}
			return g, ex.term(ev.eval(a.Value).V)
		}
		e.Cfg.Aggs = append(e.Cfg.Aggs, d)
	}
	return nil
}
