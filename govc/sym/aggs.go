package sym

import (
	"go/token"
	"go/ast"
	"fmt"
	"go/types"
	"strings"

	"govc/smt"
)

// lookupType resolves "pkg.Type" as seen from the package of a contract file.
func (e *Env) LookupType(fromPkg, name string) (types.Type, error) { return e.lookupType(fromPkg, name) }

func (e *Env) lookupType(fromPkg, name string) (types.Type, error) {
	parts := strings.SplitN(name, ".", 2)
	if len(parts) != 2 {
		return nil, fmt.Errorf("type %q must be package-qualified", name)
	}
	var from *types.Package
	for _, p := range e.Cfg.Prog.AllPackages() {
		if p.Pkg.Path() == fromPkg {
			from = p.Pkg
		}
	}
	var cands []*types.Package
	if from != nil {
		for _, imp := range from.Imports() {
			if imp.Name() == parts[0] {
				cands = append(cands, imp)
			}
		}
	}
	// sibling "<module>/types"
	if i := strings.LastIndex(fromPkg, "/"); i >= 0 {
		sib := fromPkg[:i] + "/" + parts[0]
		for _, p := range e.Cfg.Prog.AllPackages() {
			if p.Pkg.Path() == sib {
				cands = append([]*types.Package{p.Pkg}, cands...)
			}
		}
	}
	if alias, ok := pkgAliases[parts[0]]; ok {
		for _, p := range e.Cfg.Prog.AllPackages() {
			if p.Pkg.Path() == alias {
				cands = append(cands, p.Pkg)
			}
		}
	}
	for _, c := range cands {
		if obj := c.Scope().Lookup(parts[1]); obj != nil {
			if tn, ok := obj.(*types.TypeName); ok {
				return tn.Type(), nil
			}
		}
	}
	return nil, fmt.Errorf("type %q not found from %s", name, fromPkg)
}

// BindAggs turns the parsed aggregate declarations into executable ghost aggregates.
func (e *Env) BindAggs() error {
	for _, a := range e.Specs.Aggs {
		rt, err := e.lookupType(a.PkgPath, a.RowType)
		if err != nil {
			return fmt.Errorf("%s: aggregate %s: %v", a.File, a.Name, err)
		}
		a := a
		var pkg *types.Package
		for _, p := range e.Cfg.Prog.AllPackages() {
			if p.Pkg.Path() == a.PkgPath {
				pkg = p.Pkg
			}
		}
		d := &AggDecl{Name: a.Name, TableID: a.Table, RowType: rt, Params: a.Params}
		d.Eval = func(ex *Exec, row Val, key []*smt.Term, params []*smt.Term) *smt.Term {
			ev := &evalEnv{ex: ex, vars: map[string]tval{}, oldVars: map[string]tval{}, specs: e.Specs, pkg: pkg}
			ev.vars["row"] = tval{row, rt}
			for i, k := range key {
				ev.vars[fmt.Sprintf("key%d", i)] = tval{k, nil}
			}
			if len(params) != len(a.Params) {
				ex.abort("aggregate %s expects %d parameters", a.Name, len(a.Params))
			}
			for i, p := range a.Params {
				ev.vars[p] = tval{params[i], nil}
			}
			ex.inSpec++
			defer func() { ex.inSpec-- }()
			return ex.term(ev.eval(a.Value).V)
		}
		e.Cfg.Aggs = append(e.Cfg.Aggs, d)
	}
	return nil
}

// BindRowInvs resolves the row types of the declared row invariants.
func (e *Env) BindRowInvs() error {
	for _, r := range e.Specs.RowInvs {
		rt, err := e.lookupType(r.PkgPath, r.RowType)
		if err != nil {
			return fmt.Errorf("%s:%d: rowinv %s: %v", r.File, r.Line, r.Name, err)
		}
		r.rowT = rt
		for _, p := range e.Cfg.Prog.AllPackages() {
			if p.Pkg.Path() == r.PkgPath {
				r.pkg = p.Pkg
			}
		}
	}
	return nil
}

func (ex *Exec) rowInvEval(r *RowInv, row Val, key []*smt.Term) *smt.Term {
	ev := &evalEnv{ex: ex, vars: map[string]tval{}, oldVars: map[string]tval{}, specs: ex.Cfg.EnvRef.Specs, pkg: r.pkg}
	ev.vars["row"] = tval{row, r.rowT}
	for i, k := range key {
		ev.vars[fmt.Sprintf("key%d", i)] = tval{k, nil}
	}
	ex.inSpec++
	defer func() { ex.inSpec-- }()
	return ev.bool(r.Expr)
}

// rowInvAssume: a row of the unknown initial contents satisfies the table's invariants.
func (ex *Exec) rowInvAssume(ref *RowRef, row Val, t types.Type) {
	if ref.Table == "" || ex.Cfg.EnvRef == nil {
		return
	}
	memo := ref.Base + "|" + fmt.Sprint(len(ref.Key))
	for _, k := range ref.TKey {
		memo += fmt.Sprintf(",%d", k.ID())
	}
	if ex.rowInvDone == nil {
		ex.rowInvDone = map[string]bool{}
	}
	if ex.rowGuard != nil {
		memo += "|guarded"
	}
	if ex.rowInvDone[memo] {
		return
	}
	ex.rowInvDone[memo] = true
	for _, r := range ex.Cfg.EnvRef.Specs.RowInvs {
		if r.Table != ref.Table || !types.Identical(r.rowT, t) {
			continue
		}
		r := r
		nm := Namer{Prefix: ref.Base + "!row", Keys: ref.Key}
		guard := ex.rowGuard
		ex.assumeSpec(func() *smt.Term {
			// a fresh copy of the symbolic row: same leaves, no sharing with the program's copy
			inv := ex.rowInvEval(r, ex.symbolic(t, nm), ref.TKey)
			if guard != nil {
				return smt.Implies(guard, inv)
			}
			return inv
		})
	}
}

// rowInvWrite: every write must re-establish the table's row invariants.
func (ex *Exec) rowInvWrite(id string, key []*smt.Term, val *BytesV) {
	if ex.Cfg.EnvRef == nil || ex.inSpec > 0 {
		return
	}
	for _, r := range ex.Cfg.EnvRef.Specs.RowInvs {
		if r.Table != id {
			continue
		}
		row := copyDeep(val.Obj)
		ex.oblige(ex.TopKey+"/rowinv:"+r.Name, ex.rowInvEval(r, row, key), "write to "+id)
	}
}

// rowKeyFields: where a row invariant says `row.F == key<i>`, the field of a row read under a
// key IS that key term (the same fact the invariant assumes, made syntactic so that further
// reads keyed by the field address the same row).
func (ex *Exec) rowKeyFields(ref *RowRef, row Val, t types.Type) Val {
	if ref == nil || ref.Table == "" || ex.Cfg.EnvRef == nil {
		return row
	}
	st, ok := t.Underlying().(*types.Struct)
	if !ok {
		return row
	}
	var out Val = row
	for _, r := range ex.Cfg.EnvRef.Specs.RowInvs {
		if r.Table != ref.Table || r.rowT == nil || !types.Identical(r.rowT, t) || r.Expr == nil || len(r.Expr.Ante) > 0 {
			continue
		}
		var conj func(e ast.Expr)
		conj = func(e ast.Expr) {
			switch x := e.(type) {
			case *ast.ParenExpr:
				conj(x.X)
			case *ast.BinaryExpr:
				if x.Op == token.LAND {
					conj(x.X)
					conj(x.Y)
					return
				}
				if x.Op != token.EQL {
					return
				}
				a, b := x.X, x.Y
				for k := 0; k < 2; k++ {
					sel, ok1 := a.(*ast.SelectorExpr)
					id, ok2 := b.(*ast.Ident)
					if ok1 && ok2 && strings.HasPrefix(id.Name, "key") {
						if base, ok := sel.X.(*ast.Ident); ok && base.Name == "row" {
							var ki int
							if _, err := fmt.Sscanf(id.Name, "key%d", &ki); err == nil && ki < len(ref.TKey) {
								for fi := 0; fi < st.NumFields(); fi++ {
									if st.Field(fi).Name() == sel.Sel.Name {
										if srt, ok := scalarSort(st.Field(fi).Type()); ok && srt == ref.TKey[ki].Sort {
											sv, ok := ex.force(out).(*StructV)
											if ok {
												sv.F[fi] = ref.TKey[ki]
												out = sv
											}
										}
									}
								}
							}
						}
					}
					a, b = b, a
				}
			}
		}
		conj(r.Expr.Cons)
	}
	return out
}
