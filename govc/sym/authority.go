package sym

import (
	"go/types"
	"regexp"
	"sort"
	"strings"

	"govc/smt"

	"golang.org/x/tools/go/ssa"
)

type AuthResult struct {
	Field     string
	Note      string
	Paths     int
	Returning int
	Obligs    []*Oblig
	Aborts    []string
}

// findStringField looks for a string field with the given name inside a (symbolic) value.
func (ex *Exec) findStringField(v Val, name string, depth int) *smt.Term {
	if depth > 4 {
		return nil
	}
	v = ex.force(v)
	if p, ok := v.(*PtrV); ok && p.C != nil {
		v = ex.load(p)
	}
	s, ok := v.(*StructV)
	if !ok {
		return nil
	}
	st, ok := s.T.Underlying().(*types.Struct)
	if !ok {
		return nil
	}
	for i := 0; i < st.NumFields(); i++ {
		f := st.Field(i)
		if f.Name() == name {
			if b, ok := f.Type().Underlying().(*types.Basic); ok && b.Info()&types.IsString != 0 {
				return ex.term(ex.field(s, i))
			}
		}
	}
	for i := 0; i < st.NumFields(); i++ {
		if _, ok := st.Field(i).Type().Underlying().(*types.Struct); ok {
			if t := ex.findStringField(ex.field(s, i), name, depth+1); t != nil {
				return t
			}
		}
	}
	return nil
}

var msgLeafRe = regexp.MustCompile(`^arg\.[A-Za-z0-9_]+\.\*\.([A-Za-z0-9_]+)$`)

// AuthorityCheck generates and explores the governance-only contract of one message handler.
func (e *Env) AuthorityCheck(fn *ssa.Function, hasAuthField bool, maxPaths int) *AuthResult {
	res := &AuthResult{}
	if len(fn.Params) != 3 {
		res.Note = "unexpected handler signature"
		return res
	}
	field := ""
	if hasAuthField {
		field = "Authority"
	}
	compared := false
	// pass 1: which message field is compared with the keeper's authority?
	paths, _ := e.Explore(400, func(ex *Exec) {
		args, _, _ := e.bindArgs(ex, fn, nil)
		auth := ex.findStringField(args[0], "authority", 0)
		if auth == nil {
			return
		}
		func() {
			defer func() {
				if r := recover(); r != nil {
					if _, ok := r.(infeasible); ok {
						panic(r)
					}
					// other outcomes do not matter for discovery; look at the pc reached
				}
				for _, c := range ex.pc {
					lit := c
					if lit.Op == "not" {
						lit = lit.Args[0]
					}
					if lit.Op != "=" {
						continue
					}
					var other *smt.Term
					if lit.Args[0] == auth {
						other = lit.Args[1]
					} else if lit.Args[1] == auth {
						other = lit.Args[0]
					}
					if other == nil {
						continue
					}
					if m := msgLeafRe.FindStringSubmatch(other.String()); m != nil {
						compared = true
						if field == "" {
							field = m[1]
						} else if field == m[1] {
							compared = true
						}
					}
				}
			}()
			ex.Run(fn, args, nil)
		}()
	})
	_ = paths
	if field == "" {
		res.Note = "no comparison with a keeper field named authority found"
		return res
	}
	if !compared {
		res.Field = ""
		res.Note = "handler has msg." + field + " but never compares it with the keeper's authority on the explored paths"
		if !hasAuthField {
			return res
		}
		return res
	}
	res.Field = field
	fkey := FuncKey(fn)
	aborts := map[string]int{}
	all, capped := e.Explore(maxPaths, func(ex *Exec) {
		ex.TopKey = fkey
		args, _, world := e.bindArgs(ex, fn, nil)
		auth := ex.findStringField(args[0], "authority", 0)
		msgAuth := ex.findStringField(args[2], field, 0)
		if auth == nil || msgAuth == nil {
			ex.abort("authority fields not found")
		}
		ex.assume(smt.Ne(auth, msgAuth))
		r := ex.Run(fn, args, nil)
		tv, ok := r.(TupleV)
		if !ok || len(tv) != 2 {
			ex.abort("unexpected handler result")
		}
		errT := ex.term(tv[1])
		ex.oblige("C17/rejects-non-authority", smt.Ne(errT, ex.nilErr()), "")
		ex.oblige("C17/no-state-change-before-rejection", smt.BoolC(len(world.Log) == 0), strings.Join(world.Log, ", "))
	})
	for _, p := range all {
		res.Paths++
		switch p.Outcome {
		case "return":
			res.Returning++
		case "abort":
			aborts[p.Msg]++
		}
		res.Obligs = append(res.Obligs, p.Obligs...)
	}
	if capped {
		aborts["path cap reached"]++
	}
	for m := range aborts {
		res.Aborts = append(res.Aborts, m)
	}
	sort.Strings(res.Aborts)
	return res
}
