package sym

import (
	"strings"

	"govc/smt"
)

// Strings built from literals and number/string formatting are kept as templates:
// App("strtmpl!<template>", Str, args...) where the template is the literal text with %u
// (integer) and %s (string) placeholders. The background theory (engine.Axioms) knows that
// one template is injective in its arguments (when unambiguous) and that templates whose
// literal prefixes diverge produce different strings.

func escLit(s string) string { return strings.ReplaceAll(s, "%", "%%") }

// strTemplate decomposes a Str term into template text and arguments.
func strTemplate(t *smt.Term) (string, []*smt.Term, bool) {
	switch {
	case t.IsLit():
		return escLit(t.Name), nil, true
	case t.Op == "app" && strings.HasPrefix(t.Name, "strtmpl!"):
		return strings.TrimPrefix(t.Name, "strtmpl!"), t.Args, true
	case t.Op == "app" && (t.Name == "formatuint" || t.Name == "itoa" || t.Name == "intstr"):
		if t.Name == "formatuint" {
			if b, ok := t.Args[1].ConstInt(); !ok || b.Int64() != 10 {
				return "", nil, false
			}
		}
		return "%u", []*smt.Term{t.Args[0]}, true
	}
	return "", nil, false
}

func mkTemplate(tmpl string, args []*smt.Term) *smt.Term {
	if len(args) == 0 {
		return smt.StrC(strings.ReplaceAll(tmpl, "%%", "%"))
	}
	return smt.App("strtmpl!"+tmpl, smt.Str, args...)
}

// strConcat is Go's + on strings.
func strConcat(a, b *smt.Term) *smt.Term {
	ta, aa, ok1 := strTemplate(a)
	tb, ab, ok2 := strTemplate(b)
	if ok1 && ok2 {
		return mkTemplate(ta+tb, append(append([]*smt.Term{}, aa...), ab...))
	}
	if ok1 && !ok2 && b.Sort == smt.Str {
		return mkTemplate(ta+"%s", append(append([]*smt.Term{}, aa...), b))
	}
	if ok2 && !ok1 && a.Sort == smt.Str {
		return mkTemplate("%s"+tb, append([]*smt.Term{a}, ab...))
	}
	return mkTemplate("%s%s", []*smt.Term{a, b})
}

// sprintf with a constant format; ok=false when the format is not understood.
func sprintfTemplate(format string, args []*smt.Term) (*smt.Term, bool) {
	var sb strings.Builder
	var out []*smt.Term
	k := 0
	for i := 0; i < len(format); i++ {
		c := format[i]
		if c != '%' {
			sb.WriteByte(c)
			continue
		}
		if i+1 >= len(format) {
			return nil, false
		}
		i++
		switch format[i] {
		case '%':
			sb.WriteString("%%")
		case 'd', 's', 'v':
			if k >= len(args) {
				return nil, false
			}
			a := args[k]
			k++
			switch a.Sort {
			case smt.Int:
				sb.WriteString("%u")
				out = append(out, a)
			case smt.Str:
				if t, aa, ok := strTemplate(a); ok {
					sb.WriteString(t)
					out = append(out, aa...)
				} else {
					sb.WriteString("%s")
					out = append(out, a)
				}
			default:
				return nil, false
			}
		default:
			return nil, false
		}
	}
	if k != len(args) {
		return nil, false
	}
	return mkTemplate(sb.String(), out), true
}
