// Package sym is a path-enumerating symbolic executor over go/ssa. Scalars are SMT terms;
// structs, pointers, slices and closures are executor-level values, so aliasing between
// copies of a slice header or through pointers is the aliasing of the real program.
package sym

import (
	"fmt"
	"go/types"
	"strings"

	"govc/smt"

	"golang.org/x/tools/go/ssa"
)

type Val interface{}

// StructV is a struct value. Copy() before mutating a field (value semantics).
type StructV struct {
	T types.Type // named or struct type
	F []Val
}

func (s *StructV) Copy() *StructV {
	c := &StructV{T: s.T, F: make([]Val, len(s.F))}
	copy(c.F, s.F)
	return c
}

// Cell is a mutable memory location (an Alloc, a slice element, a pointee).
type Cell struct {
	V    Val
	T    types.Type
	Name string
}

// PtrV is a pointer: a cell plus a path of struct-field indices into the cell's value.
type PtrV struct {
	C    *Cell
	Path []int
	T    types.Type // pointee type
}

func (p *PtrV) IsNil() bool { return p.C == nil }

// ArrV is a backing array shared between slice headers.
type ArrV struct {
	Elems []*Cell
	ElemT types.Type
}

type SliceV struct {
	Arr           *ArrV // nil for nil slice
	Off, Len, Cap int
	T             types.Type
}

type TupleV []Val

type ClosureV struct {
	Fn   *ssa.Function
	Bind []Val
}

// IfaceV is a non-nil interface value with a known dynamic type.
type IfaceV struct {
	Dyn types.Type
	V   Val
}

// NilV is the nil interface / nil func / nil map.
type NilV struct{ T types.Type }

// OpaqueV is a value the executor does not look into (keeper dependencies, loggers, codecs,
// event managers). Calls on it are resolved by the model table or rejected.
type OpaqueV struct {
	T   types.Type
	Tag string
}

// LazyV is a symbolic value of type T whose structure has not been expanded yet. Name is
// the UF/constant prefix and Keys the arguments every leaf below it is applied to.
type LazyV struct {
	T  types.Type
	Nm Namer
}

// Namer names symbolic leaves: leaf(field path) = App(Prefix+path, sort, Keys...).
type Namer struct {
	Prefix string
	Keys   []*smt.Term
}

func (n Namer) Sub(s string) Namer { return Namer{Prefix: n.Prefix + "." + s, Keys: n.Keys} }
func (n Namer) Leaf(s smt.Sort) *smt.Term {
	return smt.App(n.Prefix, s, n.Keys...)
}

// CtxV is an sdk.Context: a handle on a ghost world.
type CtxV struct {
	W      *World
	Time   *smt.Term // overridden block time (WithBlockTime), nil = the block's
	Height *smt.Term
}

// TimeV is a time.Time reduced to its Unix seconds (sub-second precision not modelled).
type TimeV struct{ Unix *smt.Term }

// BytesV is a []byte used as a store key, a marshalled object, or opaque bytes.
type BytesV struct {
	Nil  bool
	Tag  string      // key family / "marshal" / "u64be" / "sym"
	Args []*smt.Term // key arguments
	Obj  Val         // marshalled object (Tag=="marshal")
	Row  *RowRef     // bytes read from the base (unknown) contents of a table
	Sub  []*BytesV   // concatenation parts (Tag=="cat")
}

// RowRef identifies a row of a table's initial (symbolic) contents.
type RowRef struct {
	Base  string
	Key   []*smt.Term
	Table string      // table id (for row invariants)
	TKey  []*smt.Term // the key the row was read at
}

// CoinsV is an sdk.Coins value seen as a total map denom -> amount. A literal slice
// ([]sdk.Coin with concrete length) is kept as SliceV and converted on demand.
type CoinsV struct {
	Sym   *Namer   // symbolic base amount function, or nil
	Plus  []Val    // added coin collections (CoinsV, SliceV of coins, or *StructV coin)
	Minus []Val    // subtracted
	// Valid: result of an SDK constructor (sorted, positive, no zero entries)
}

type StoreV struct {
	W         *World
	Module    string
	Transient bool
	Prefix    *BytesV
}

// IterV is a store iterator positioned on a materialised list of rows.
type IterV struct {
	ID   string
	Rows []iterRow
	Pos  int
	// precise first position of a declared prefix family over a table without writes on this path
	Fam     *PrefixFamily
	W       *World
	Fixed   []*smt.Term
	Reverse bool
	first   *BytesV
	firstOK int // 0 unknown, 1 valid, 2 exhausted
}
type iterRow struct {
	Key *BytesV
	Val *BytesV
}

func typeString(t types.Type) string {
	return types.TypeString(t, nil)
}

func isNamed(t types.Type, path, name string) bool {
	if a, ok := t.(*types.Alias); ok {
		t = types.Unalias(a)
	}
	n, ok := t.(*types.Named)
	if !ok {
		return false
	}
	o := n.Obj()
	if o.Pkg() == nil {
		return false
	}
	return o.Name() == name && (o.Pkg().Path() == path || strings.HasSuffix(o.Pkg().Path(), "/"+path))
}

func isMathInt(t types.Type) bool { return isNamed(t, "cosmossdk.io/math", "Int") }
func isMathUint(t types.Type) bool { return isNamed(t, "cosmossdk.io/math", "Uint") }
func isDec(t types.Type) bool     { return isNamed(t, "cosmossdk.io/math", "LegacyDec") }
func isCoin(t types.Type) bool    { return isNamed(t, "github.com/cosmos/cosmos-sdk/types", "Coin") }
func isDecCoin(t types.Type) bool { return isNamed(t, "github.com/cosmos/cosmos-sdk/types", "DecCoin") }
func isCoins(t types.Type) bool   { return isNamed(t, "github.com/cosmos/cosmos-sdk/types", "Coins") }
func isDecCoins(t types.Type) bool {
	return isNamed(t, "github.com/cosmos/cosmos-sdk/types", "DecCoins")
}
func isAccAddr(t types.Type) bool {
	return isNamed(t, "github.com/cosmos/cosmos-sdk/types", "AccAddress") || isNamed(t, "github.com/cosmos/cosmos-sdk/types", "ValAddress")
}
func isSdkCtx(t types.Type) bool {
	return isNamed(t, "github.com/cosmos/cosmos-sdk/types", "Context") || isNamed(t, "context", "Context")
}
func isTime(t types.Type) bool     { return isNamed(t, "time", "Time") }
func isDuration(t types.Type) bool { return isNamed(t, "time", "Duration") }
func isErrorType(t types.Type) bool {
	return types.Identical(t, types.Universe.Lookup("error").Type())
}
func isByteSlice(t types.Type) bool {
	s, ok := t.Underlying().(*types.Slice)
	if !ok {
		return false
	}
	b, ok := s.Elem().Underlying().(*types.Basic)
	return ok && (b.Kind() == types.Byte || b.Kind() == types.Uint8)
}

// scalarSort returns the SMT sort of a Go type represented by a single term.
func scalarSort(t types.Type) (smt.Sort, bool) {
	t = types.Unalias(t)
	switch {
	case isMathInt(t), isDec(t), isMathUint(t), isDuration(t):
		return smt.Int, true
	case isAccAddr(t):
		return smt.Addr, true
	case isErrorType(t):
		return smt.Err, true
	}
	switch u := t.Underlying().(type) {
	case *types.Basic:
		switch {
		case u.Info()&types.IsBoolean != 0:
			return smt.Bool, true
		case u.Info()&types.IsInteger != 0:
			return smt.Int, true
		case u.Info()&types.IsString != 0:
			return smt.Str, true
		case u.Info()&types.IsFloat != 0:
			return smt.Obj, true
		case u.Kind() == types.UnsafePointer:
			return smt.Obj, true
		}
	}
	return "", false
}

func isUnsigned(t types.Type) bool {
	if isMathUint(t) {
		return true
	}
	b, ok := t.Underlying().(*types.Basic)
	return ok && b.Info()&types.IsUnsigned != 0
}

func describe(v Val) string {
	switch v := v.(type) {
	case nil:
		return "<nil>"
	case *smt.Term:
		return v.String()
	case *StructV:
		var parts []string
		st, _ := v.T.Underlying().(*types.Struct)
		for i, f := range v.F {
			n := fmt.Sprint(i)
			if st != nil && i < st.NumFields() {
				n = st.Field(i).Name()
			}
			if _, lazy := f.(*LazyV); lazy {
				continue
			}
			parts = append(parts, n+":"+describe(f))
		}
		return "{" + strings.Join(parts, " ") + "}"
	case *PtrV:
		if v.C == nil {
			return "nilptr"
		}
		return "&" + v.C.Name
	case *SliceV:
		if v.Arr == nil {
			return "nilslice"
		}
		var parts []string
		for i := 0; i < v.Len; i++ {
			parts = append(parts, describe(v.Arr.Elems[v.Off+i].V))
		}
		return "[" + strings.Join(parts, ", ") + "]"
	case *LazyV:
		return "lazy(" + v.Nm.Prefix + ")"
	case *BytesV:
		return "bytes(" + v.Tag + ")"
	case *OpaqueV:
		return "opaque(" + v.Tag + ")"
	case *CoinsV:
		return "coins"
	case TupleV:
		var parts []string
		for _, x := range v {
			parts = append(parts, describe(x))
		}
		return "(" + strings.Join(parts, ", ") + ")"
	}
	return fmt.Sprintf("%T", v)
}
