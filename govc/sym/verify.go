package sym

import (
	"fmt"
	"go/ast"
	"go/parser"
	"go/types"
	"sort"
	"strings"
	"time"

	"govc/smt"

	"golang.org/x/tools/go/ssa"
)

// PathResult summarises one explored path.
type PathResult struct {
	Decisions string
	Outcome   string // "return", "panic", "abort", "infeasible"
	Msg       string
	Obligs    []*Oblig
	Bounded   map[string]int
	Calls     []string
	PC        []*smt.Term
	Used      map[string]bool
	Externals map[string]bool
}

// FuncResult is the outcome of exploring one function under contract.
type FuncResult struct {
	Fn       *ssa.Function
	Contract *Contract
	Paths    []*PathResult
	Aborts   map[string]int
	Bounded  map[string]int
	Capped   bool
}

type Env struct {
	Cfg      *Config
	Specs    *SpecSet
	aliasFor []string
}

// newExec prepares a path executor.
func (e *Env) newExec(prefix []int, pending *[][]int) *Exec {
	ex := e.newExec1(prefix, pending)
	currentExec = ex
	return ex
}

func (e *Env) newExec1(prefix []int, pending *[][]int) *Exec {
	return &Exec{
		Cfg: e.Cfg, dec: append([]int(nil), prefix...), pending: pending,
		Bounded: map[string]int{}, lenChoice: map[string]int{}, globals: map[*ssa.Global]*Cell{}, UsedContracts: map[string]bool{}, Externals: map[string]bool{},
		callResults: map[string]tval{},
		forceMemo:   map[*LazyV]Val{}, sliceMemo: map[*LazyV]*SliceV{}, opaqueRedo: map[string][]func(){},
		siteCount: map[string]int{}, worldBase: "",
	}
}

// Explore runs body once per path.
func (e *Env) Explore(maxPaths int, body func(ex *Exec)) (paths []*PathResult, capped bool) {
	pending := [][]int{{}}
	for len(pending) > 0 {
		if len(paths) >= maxPaths {
			return paths, true
		}
		if !e.Cfg.Deadline.IsZero() && time.Now().After(e.Cfg.Deadline) {
			return paths, true
		}
		prefix := pending[len(pending)-1]
		pending = pending[:len(pending)-1]
		ex := e.newExec(prefix, &pending)
		pr := &PathResult{}
		func() {
			defer func() {
				if r := recover(); r != nil {
					switch x := r.(type) {
					case abortErr:
						pr.Outcome, pr.Msg = "abort", x.msg
					case panicOut:
						pr.Outcome, pr.Msg = "panic", x.msg
					case infeasible:
						pr.Outcome = "infeasible"
					case loopStepDone:
						pr.Outcome = "loop-step"
					default:
						// a defect of the executor or a model meeting a value shape it does not
						// handle: the path is outside the subset (never silently dropped)
						pr.Outcome, pr.Msg = "abort", fmt.Sprintf("internal: %v", r)
					}
				}
			}()
			body(ex)
			if pr.Outcome == "" {
				pr.Outcome = "return"
			}
		}()
		pr.Decisions = ex.pathString()
		pr.Obligs = ex.Obligs
		pr.Bounded = ex.Bounded
		pr.Calls = ex.Calls
		pr.PC = ex.pc
		pr.Used = ex.UsedContracts
		pr.Externals = ex.Externals
		paths = append(paths, pr)
	}
	return paths, false
}

func paramName(p *ssa.Parameter, i int) string {
	if p.Name() == "" || p.Name() == "_" {
		return fmt.Sprintf("arg%d", i)
	}
	return p.Name()
}

// bindArgs creates symbolic arguments and the spec environment for fn.
func (e *Env) bindArgs(ex *Exec, fn *ssa.Function, ct *Contract) (args []Val, ev *evalEnv, world *World) {
	ev = &evalEnv{ex: ex, vars: map[string]tval{}, oldVars: map[string]tval{}, specs: e.Specs}
	if fn.Pkg != nil {
		ev.pkg = fn.Pkg.Pkg
	}
	world = NewWorld("")
	for i, p := range fn.Params {
		name := paramName(p, i)
		var v Val
		if isSdkCtx(p.Type()) {
			v = &CtxV{W: world}
		} else {
			v = ex.symbolic(p.Type(), Namer{Prefix: "arg." + name})
		}
		args = append(args, v)
		ev.vars[name] = tval{v, p.Type()}
		if ct != nil && i < len(ct.Alias) && ct.Alias[i] != "" {
			ev.vars[ct.Alias[i]] = tval{v, p.Type()}
		}
	}
	if ct != nil {
		for n, s := range ct.Foralls {
			v := smt.Var("any."+n, s)
			ev.vars[n] = tval{v, nil}
			ex.TopForalls = append(ex.TopForalls, v)
		}
		for _, ie := range ct.Instances {
			// an instance that does not exist on this path (an index beyond a short list) is skipped
			func() {
				defer func() {
					if r := recover(); r != nil {
						if _, isAbort := r.(abortErr); !isAbort {
							if _, isPanic := r.(panicOut); !isPanic {
								panic(r)
							}
						}
					}
				}()
				if t, ok := ev.eval(ie).V.(*smt.Term); ok {
					ex.TopForalls = append(ex.TopForalls, t)
				}
			}()
		}
	}
	return
}

func (e *Env) snapshotOld(ex *Exec, fn *ssa.Function, args []Val, ev *evalEnv) {
	for i, p := range fn.Params {
		name := paramName(p, i)
		switch a := args[i].(type) {
		case *CtxV:
			ev.oldVars[name] = tval{&CtxV{W: a.W.Clone(), Time: a.Time, Height: a.Height}, p.Type()}
		default:
			ev.oldVars[name] = tval{copyDeep(args[i]), p.Type()}
		}
		if len(e.aliasFor) > i && e.aliasFor[i] != "" {
			ev.oldVars[e.aliasFor[i]] = ev.oldVars[name]
		}
	}
}

func (e *Env) bindResults(fn *ssa.Function, res Val, ev *evalEnv) {
	e.bindResultsSig(fn.Signature.Results(), res, ev)
}

func (e *Env) bindResultsSig(rs *types.Tuple, res Val, ev *evalEnv) {
	var vals []Val
	switch rs.Len() {
	case 0:
	case 1:
		vals = []Val{res}
	default:
		vals = []Val(res.(TupleV))
	}
	for i := 0; i < rs.Len(); i++ {
		r := rs.At(i)
		tv := tval{vals[i], r.Type()}
		if r.Name() != "" && r.Name() != "_" {
			ev.vars[r.Name()] = tv
		}
		ev.vars[fmt.Sprintf("result%d", i)] = tv
		if rs.Len() == 1 || (i == 0 && !isErrorType(r.Type())) {
			ev.vars["result"] = tv
		}
		if isErrorType(r.Type()) && i == rs.Len()-1 {
			ev.vars["err"] = tv
		}
	}
}

func (e *Env) evalLets(ct *Contract, ev *evalEnv, old bool) {
	for _, l := range ct.Lets {
		if l.Old != old {
			continue
		}
		if old {
			ev.inOld = true
		}
		v := ev.eval(l.Expr)
		ev.inOld = false
		ev.vars[l.Name] = v
		ev.oldVars[l.Name] = v
	}
}

// VerifyFunc explores fn against its contract and collects obligations per path.
func (e *Env) VerifyFunc(fn *ssa.Function, ct *Contract, maxPaths int) *FuncResult {
	fr := &FuncResult{Fn: fn, Contract: ct, Aborts: map[string]int{}, Bounded: map[string]int{}}
	saved := e.Cfg.Bounds
	savedDec := e.Cfg.DecAbstract
	if ct != nil {
		b := map[string]int{}
		for k, v := range saved {
			b[k] = v
		}
		for k, v := range ct.Bounds {
			b[k] = v
		}
		e.Cfg.Bounds = b
		if ct.DecAbs {
			e.Cfg.DecAbstract = true
		}
	}
	defer func() { e.Cfg.Bounds = saved; e.Cfg.DecAbstract = savedDec }()
	fkey := FuncKey(fn)
	budget := e.Cfg.FuncBudget
	if budget == 0 {
		budget = 600 * time.Second // a safety net only: the deterministic limits are the path cap and the loop bound
	}
	e.Cfg.Deadline = time.Now().Add(budget)
	defer func() { e.Cfg.Deadline = time.Time{} }()
	e.aliasFor = nil
	if ct != nil {
		e.aliasFor = ct.Alias
		if ct.Iface {
			fkey = "iface:" + ct.Key + "@" + fkey
		}
	}
	if ct != nil && ct.Unroll > 0 {
		saved := e.Cfg.MaxBlockVis
		e.Cfg.MaxBlockVis = ct.Unroll + 1
		defer func() { e.Cfg.MaxBlockVis = saved }()
	}
	paths, capped := e.Explore(maxPaths, func(ex *Exec) {
		ex.TopKey = fkey
		ex.TopFn = fn
		args, ev, _ := e.bindArgs(ex, fn, ct)
		e.snapshotOld(ex, fn, args, ev)
		ex.TopEv, ex.TopCt = ev, ct
		if ct != nil {
			for _, r := range append(append([]*Clause{}, ct.Assumes...), ct.Requires...) {
				r := r
				// evaluated over the entry snapshot so that a later re-evaluation (after a
				// collection is revealed) still speaks about the entry state
				ex.assumeSpec(func() *smt.Term {
					ev.inOld = true
					defer func() { ev.inOld = false }()
					return ev.bool(r.Expr)
				})
			}
			// a precondition over a quantified variable holds for every value of it
			if len(ct.Foralls) > 0 {
				var fn2 []string
				for n := range ct.Foralls {
					fn2 = append(fn2, n)
				}
				sort.Strings(fn2)
				ev.inOld = true
				ex.assumeQuantified(ev, ct, fn2, append(append([]*Clause{}, ct.Assumes...), ct.Requires...), false)
				ev.inOld = false
			}
		}
		if ct != nil {
			e.evalLets(ct, ev, true)
		}
		var res Val
		panicked := false
		func() {
			defer func() {
				if r := recover(); r != nil {
					if po, ok := r.(panicOut); ok {
						panicked = true
						if ct != nil && ct.NoPanic {
							ex.oblige(fkey+"/nopanic", smt.False, po.msg)
						}
						if ct != nil {
							for _, c := range ct.OnPanic {
								ex.oblige(fkey+"/onpanic:"+c.Name, ev.bool(c.Expr), po.msg)
							}
						}
					}
					panic(r)
				}
			}()
			res = ex.Run(fn, args, nil)
		}()
		_ = panicked
		if ct == nil {
			return
		}
		e.bindResults(fn, res, ev)
		e.evalLets(ct, ev, false)
		for _, c := range ct.Ensures {
			if c.Assumed {
				continue
			}
			ex.oblige(fkey+"/ensures:"+c.Name, ev.bool(c.Expr), "")
			// vacuity guard: the antecedent of the clause must be reachable on some path
			if len(c.Expr.Ante) > 0 {
				var antes []*smt.Term
				for _, a := range c.Expr.Ante {
					antes = append(antes, ex.term(ev.eval(a).V))
				}
				ante := ex.simplifyUnder(smt.And(antes...))
				if !ante.IsFalse() {
					ex.Obligs = append(ex.Obligs, &Oblig{Cover: true, Name: fkey + "/cover:" + c.Name, Hyps: append([]*smt.Term(nil), ex.pc...), Goal: smt.Not(ante), Path: ex.pathString()})
				}
			}
		}
		if ct.HasMod {
			e.frameObligations(ex, fn, ct, ev, args)
			e.heapFrame(ex, fn, ct, ev, args)
		}
		// supply clauses: every mint/burn on this path, every denom with a non-zero amount
		if len(ct.Mints)+len(ct.Burns) > 0 {
			dv, ok := ev.vars["d"]
			if !ok {
				ex.abort("mints/burns clauses need `forall d Str`")
			}
			d := ex.term(dv.V)
			for _, evn := range ex.SupplyEvents {
				clauses := ct.Mints
				if evn.Kind == "burn" {
					clauses = ct.Burns
				}
				nz := smt.Ne(ex.amtOf(evn.Coins, d), smt.IntC(0))
				if len(clauses) == 0 {
					ex.oblige(fkey+"/"+evn.Kind+"s:unclassified", smt.Not(nz), "a "+evn.Kind+" at "+evn.Pos+" in a function whose contract classifies none")
				}
				ev.vars["module"] = tval{evn.Module, nil}
				for _, c := range clauses {
					ex.oblige(fkey+"/"+evn.Kind+"s:"+c.Name, smt.Implies(nz, ev.bool(c.Expr)), evn.Kind+" at "+evn.Pos)
				}
			}
		}
	})
	fr.Paths = paths
	fr.Capped = capped
	for _, p := range paths {
		if p.Outcome == "abort" {
			fr.Aborts[p.Msg]++
		}
		for k, v := range p.Bounded {
			fr.Bounded[k] = v
		}
	}
	return fr
}

// ---- modifies ---------------------------------------------------------------------------

type modItem struct {
	Kind string // "bank", "bankaddr", "table", "row", "ptr", "world", "prefix"
	ID   string
	Keys []ast.Expr
	Expr ast.Expr
	Cond *Spec // optional: the item applies only when Cond holds in the pre-state
}

func parseModifies(items []string) ([]modItem, error) {
	var out []modItem
	for _, it := range items {
		it = strings.TrimSpace(it)
		var cond *Spec
		if i := strings.Index(it, " if "); i >= 0 {
			sp, err := parseSpec(strings.TrimSpace(it[i+4:]))
			if err != nil {
				return nil, err
			}
			cond = sp
			it = strings.TrimSpace(it[:i])
		}
		n0 := len(out)
		switch {
		case it == "world":
			out = append(out, modItem{Kind: "world"})
		case it == "bank":
			out = append(out, modItem{Kind: "bank"})
		case it == "bank-balances":
			// transfers between any accounts; no mint, no burn
			out = append(out, modItem{Kind: "bankbal"})
		case strings.HasPrefix(it, "bank["):
			e, err := parser.ParseExpr(strings.TrimSuffix(strings.TrimPrefix(it, "bank["), "]"))
			if err != nil {
				return nil, err
			}
			out = append(out, modItem{Kind: "bankaddr", Expr: e})
		case strings.HasPrefix(it, "elems:"):
			// the elements of a slice reachable from a by-value argument (the callee shares the
			// backing array with its caller) may be rewritten
			e, err := parser.ParseExpr(strings.TrimPrefix(it, "elems:"))
			if err != nil {
				return nil, err
			}
			out = append(out, modItem{Kind: "elems", Expr: e})
		case strings.HasPrefix(it, "*"):
			e, err := parser.ParseExpr(strings.TrimPrefix(it, "*"))
			if err != nil {
				return nil, err
			}
			out = append(out, modItem{Kind: "ptr", Expr: e})
		case strings.HasPrefix(it, "module:"):
			out = append(out, modItem{Kind: "prefix", ID: strings.TrimPrefix(it, "module:") + ":"})
		case strings.HasPrefix(it, "table:"):
			rest := strings.TrimPrefix(it, "table:")
			if i := strings.Index(rest, "["); i >= 0 {
				m := modItem{Kind: "row", ID: rest[:i]}
				for _, k := range splitTop(strings.TrimSuffix(rest[i+1:], "]"), ";") {
					e, err := parser.ParseExpr(strings.TrimSpace(k))
					if err != nil {
						return nil, err
					}
					m.Keys = append(m.Keys, e)
				}
				out = append(out, m)
			} else {
				out = append(out, modItem{Kind: "table", ID: rest})
			}
		default:
			return nil, fmt.Errorf("bad modifies item %q", it)
		}
		for i := n0; i < len(out); i++ {
			out[i].Cond = cond
		}
	}
	return out, nil
}

// frameObligations: every table write / bank operation performed on this path must be
// covered by the contract's modifies clause.
func (e *Env) frameObligations(ex *Exec, fn *ssa.Function, ct *Contract, ev *evalEnv, args []Val) {
	mods, err := parseModifies(ct.Modifies)
	if err != nil {
		ex.abort("modifies of %s: %v", ct.Key, err)
	}
	var w *World
	for _, a := range args {
		if c, ok := a.(*CtxV); ok {
			w = c.W
		}
	}
	if w == nil {
		return
	}
	fkey := FuncKey(fn)
	ev.inOld = true
	defer func() { ev.inOld = false }()
	condOf := func(m modItem) *smt.Term {
		if m.Cond == nil {
			return smt.True
		}
		return ev.bool(m.Cond)
	}
	worldCond := smt.False
	for _, m := range mods {
		if m.Kind == "world" {
			worldCond = smt.Or(worldCond, condOf(m))
		}
	}
	if worldCond.IsTrue() {
		return
	}
	ids := make([]string, 0, len(w.Tables))
	for id := range w.Tables {
		ids = append(ids, id)
	}
	sort.Strings(ids)
	for _, id := range ids {
		t := w.Tables[id]
		if strings.Contains(t.Base, "!h") && len(t.Writes) == 0 || strings.Contains(t.Base, "!h") {
			// whole-table havoc by a callee: needs a table-level modifies
			ok := worldCond
			for _, m := range mods {
				if (m.Kind == "table" && m.ID == id) || (m.Kind == "prefix" && modOfTable(id) == strings.TrimSuffix(m.ID, ":")) {
					ok = smt.Or(ok, condOf(m))
				}
			}
			ex.oblige(fkey+"/frame:table:"+id, ok, "table havocked by a callee")
		}
		for _, wr := range t.Writes {
			goal := worldCond
			for _, m := range mods {
				switch {
				case m.Kind == "table" && m.ID == id, m.Kind == "prefix" && modOfTable(id) == strings.TrimSuffix(m.ID, ":"):
					goal = smt.Or(goal, condOf(m))
				case m.Kind == "row" && m.ID == id:
					var ks []*smt.Term
					for _, k := range m.Keys {
						ks = append(ks, ex.keyTerms(ev.eval(k).V)...)
					}
					goal = smt.Or(goal, smt.And(condOf(m), keysEq(wr.Key, ks)))
				}
			}
			ex.oblige(fkey+"/frame:table:"+id, goal, "write outside modifies")
		}
	}
	for _, op := range w.Bank.Ops {
		goal := worldCond
		for _, m := range mods {
			switch m.Kind {
			case "bank":
				goal = smt.Or(goal, condOf(m))
			case "bankbal":
				// covers every operation that leaves the supplies alone
				if !op.Supply && !(op.Havoc && op.All && !op.KeepSupply) {
					goal = smt.Or(goal, condOf(m))
				}
			case "bankaddr":
				if op.Addr != nil && !op.All {
					goal = smt.Or(goal, smt.And(condOf(m), smt.Eq(op.Addr, ex.term(ev.eval(m.Expr).V))))
				}
			}
		}
		ex.oblige(fkey+"/frame:bank", goal, "bank operation outside modifies")
	}
}

// keyTerms converts a spec value into table key terms (the same flattening keyArgs uses).
func (ex *Exec) keyTerms(v Val) []*smt.Term {
	ks, ok := ex.keyArgs([]Val{v})
	if !ok {
		ex.abort("value %T cannot be used as a table key", v)
	}
	return ks
}

// applyContract is the modular treatment of a call: prove requires, havoc modifies,
// assume ensures.
func (ex *Exec) applyContract(fr *frame, fn *ssa.Function, ct *Contract, args []Val, ins ssa.Instruction) Val {
	var names []string
	var ptypes []types.Type
	for i, p := range fn.Params {
		names = append(names, paramName(p, i))
		ptypes = append(ptypes, p.Type())
	}
	var pkg *types.Package
	if fn.Pkg != nil {
		pkg = fn.Pkg.Pkg
	}
	return ex.applyContractSig(fr, FuncKey(fn), pkg, names, ptypes, fn.Signature.Results(), ct, args)
}

func (ex *Exec) applyContractSig(fr *frame, calleeKey string, pkg *types.Package, names []string, ptypes []types.Type, rs *types.Tuple, ct *Contract, args []Val) Val {
	env := ex.Cfg.EnvRef
	ev := &evalEnv{ex: ex, vars: map[string]tval{}, oldVars: map[string]tval{}, specs: env.Specs}
	ev.pkg = pkg
	caller := "spec"
	if fr != nil {
		caller = FuncKey(fr.fn)
	}
	label := ex.site(caller + "/call:" + calleeKey)
	for i := range names {
		ev.vars[names[i]] = tval{args[i], ptypes[i]}
	}
	// universally quantified contract variables are instantiated with the relevant ground
	// terms of their sort: the quantified constants of the function being verified and the
	// scalar arguments of this call (sound; incomplete beyond these instances)
	var fnames []string
	for n := range ct.Foralls {
		fnames = append(fnames, n)
	}
	sort.Strings(fnames)
	cands := map[string][]*smt.Term{}
	for _, n := range fnames {
		srt := ct.Foralls[n]
		seen := map[*smt.Term]bool{}
		add := func(t *smt.Term) {
			if t.Sort == srt && !seen[t] {
				seen[t] = true
				cands[n] = append(cands[n], t)
			}
		}
		for _, t := range ex.TopForalls {
			add(t)
		}
		for _, a := range args {
			if t, ok := a.(*smt.Term); ok {
				add(t)
			}
			if sv, ok := a.(*StructV); ok && isCoin(sv.T) {
				add(ex.field(sv, 0).(*smt.Term))
			}
		}
		if len(cands[n]) == 0 {
			cands[n] = []*smt.Term{smt.Var(ex.freshName("any."+n), srt)}
		}
		ev.vars[n] = tval{cands[n][0], nil}
	}
	for _, r := range ct.Assumes {
		ex.assume(ev.bool(r.Expr))
	}
	// a precondition that mentions a universally quantified variable must hold for every value:
	// it is proved for a fresh constant (the candidate instances are for assuming postconditions)
	savedInst := map[string]tval{}
	for _, n := range fnames {
		savedInst[n] = ev.vars[n]
		ev.vars[n] = tval{smt.Var(ex.freshName("pre!any."+n), ct.Foralls[n]), nil}
	}
	for _, r := range ct.Requires {
		// a precondition tagged with property ids guards the postconditions carrying the same
		// ids; where those are not assumed (relevantClause) it is not demanded either
		if len(r.Tags) > 0 && !ex.relevantClause(r) {
			continue
		}
		g := ev.bool(r.Expr)
		if ex.inSpec == 0 {
			ex.oblige(label+"/pre:"+r.Name, g, "")
		}
		ex.assume(g)
	}
	for _, n := range fnames {
		ev.vars[n] = savedInst[n]
	}
	// ... and is known, at the instances, once proved
	if len(fnames) > 0 {
		var instReq func(i int)
		instReq = func(i int) {
			if i == len(fnames) {
				for _, r := range ct.Requires {
					if len(r.Tags) > 0 && !ex.relevantClause(r) {
						continue
					}
					ex.assume(ev.bool(r.Expr))
				}
				return
			}
			for _, t := range cands[fnames[i]] {
				ev.vars[fnames[i]] = tval{t, nil}
				instReq(i + 1)
			}
		}
		instReq(0)
		for _, n := range fnames {
			ev.vars[n] = savedInst[n]
		}
	}
	for i := range names {
		switch a := args[i].(type) {
		case *CtxV:
			ev.oldVars[names[i]] = tval{&CtxV{W: a.W.Clone(), Time: a.Time, Height: a.Height}, ptypes[i]}
		default:
			ev.oldVars[names[i]] = tval{copyDeep(args[i]), ptypes[i]}
		}
	}
	// let-bindings serve the postconditions: where none of them is assumed here (all tagged with
	// properties the function under verification has no clause for) they are not evaluated
	// (their evaluation reads state and may fork)
	anyRelevant := false
	for _, c := range ct.Ensures {
		if ex.relevantClause(c) {
			anyRelevant = true
		}
	}
	if anyRelevant {
		env.evalLets(ct, ev, true)
	}
	mods, err := parseModifies(ct.Modifies)
	if err != nil {
		ex.abort("modifies of %s: %v", ct.Key, err)
	}
	var w *World
	for _, a := range args {
		if c, ok := a.(*CtxV); ok {
			w = c.W
		}
	}
	// evaluate havoc targets in the pre-state, then havoc
	type rowT struct {
		id string
		ks []*smt.Term
	}
	var rows []rowT
	var addrs []*smt.Term
	var ptrs []*PtrV
	var elemSlices []tval
	for i, m := range mods {
		if m.Cond != nil && !ex.branch(ev.bool(m.Cond)) {
			mods[i].Kind = "skip"
			continue
		}
		mods[i].Cond = nil
		switch m.Kind {
		case "row":
			var ks []*smt.Term
			for _, k := range m.Keys {
				ks = append(ks, ex.keyTerms(ev.eval(k).V)...)
			}
			rows = append(rows, rowT{m.ID, ks})
		case "bankaddr":
			addrs = append(addrs, ex.term(ev.eval(m.Expr).V))
		case "ptr":
			ptrs = append(ptrs, ev.heapTarget(m.Expr))
		case "elems":
			elemSlices = append(elemSlices, ev.eval(m.Expr))
		}
	}
	for _, m := range mods {
		switch m.Kind {
		case "world":
			if w != nil {
				ex.havocEverything(w)
			}
		case "bank":
			if w != nil {
				ex.bankHavocAll(w)
			}
		case "bankbal":
			if w != nil {
				ex.bankHavocBalances(w)
			}
		case "table":
			if w != nil {
				ex.tableHavoc(w, m.ID)
			}
		case "prefix":
			if w != nil {
				ex.havocModule(w, strings.TrimSuffix(m.ID, ":"))
			}
		}
	}
	for _, r := range rows {
		ex.tableHavocRow(w, r.id, r.ks)
	}
	for _, a := range addrs {
		ex.bankHavocAddr(w, a)
	}
	for _, p := range ptrs {
		if p.C != nil {
			ex.havocObject(p, label, calleeKey)
		}
	}
	for _, es := range elemSlices {
		// the caller's view of the shared backing array: every element becomes unknown
		sl, ok := ex.forceSliceVal(es.V)
		if !ok || sl.Arr == nil {
			continue
		}
		for i := 0; i < sl.Len; i++ {
			c := sl.Arr.Elems[sl.Off+i]
			c.V = &LazyV{T: c.T, Nm: Namer{Prefix: ex.freshName(label + "!elem")}}
		}
	}
	// results
	resPrefix := label + "!r"
	var resKeys []*smt.Term
	if ct.Pure {
		// a pure function: the result is a function of the scalar arguments and the state version
		if ka, ok := ex.keyArgs(scalarOnly(args)); ok && len(scalarOnly(args))+countCtx(args)+countOpaque(ex, args) == len(args) {
			resPrefix = "pure!" + calleeKey + "!r"
			resKeys = append(ka, smt.IntC(int64(ex.stateVersion(w))))
		}
	}
	var res Val
	switch rs.Len() {
	case 0:
	case 1:
		res = ex.symbolic(rs.At(0).Type(), Namer{Prefix: resPrefix, Keys: resKeys})
	default:
		tv := make(TupleV, rs.Len())
		for i := range tv {
			tv[i] = ex.symbolic(rs.At(i).Type(), Namer{Prefix: fmt.Sprintf("%s%d", resPrefix, i), Keys: resKeys})
		}
		res = tv
	}
	env.bindResultsSig(rs, res, ev)
	{
		var rt types.Type = rs
		if rs.Len() == 1 {
			rt = rs.At(0).Type()
		}
		ex.callResults[label] = tval{res, rt}
	}
	if anyRelevant {
		env.evalLets(ct, ev, false)
	}
	// every combination of instantiations of the quantified variables
	ex.revealPrefix = resPrefix
	defer func() { ex.revealPrefix = "" }()
	var inst func(i int)
	inst = func(i int) {
		if i == len(fnames) {
			for _, c := range ct.Ensures {
				if !ex.relevantClause(c) {
					continue
				}
				ex.assume(ev.bool(c.Expr))
			}
			return
		}
		for _, t := range cands[fnames[i]] {
			ev.vars[fnames[i]] = tval{t, nil}
			ev.oldVars[fnames[i]] = tval{t, nil}
			inst(i + 1)
		}
	}
	inst(0)
	// ... and as universally quantified facts (the instances above help the solvers; the
	// quantified form is what makes a fact available at values nobody listed). A clause whose
	// evaluation under a bound variable would need a case split is left to its instances.
	if len(fnames) > 0 {
		ex.assumeQuantified(ev, ct, fnames, ct.Ensures, true)
	}
	// a supply-wrapper summarised by its contract still performs a mint/burn: record it with
	// coins about which exactly the wrapper's own (proved) mints/burns clauses are known
	if ct.SupplyWrapper {
		for _, kc := range []struct {
			kind    string
			clauses []*Clause
		}{{"mint", ct.Mints}, {"burn", ct.Burns}} {
			if len(kc.clauses) == 0 {
				continue
			}
			nm := Namer{Prefix: label + "!forwarded"}
			cv := &CoinsV{Sym: &nm}
			dn := "d"
			for _, t := range append(append([]*smt.Term{}, ex.TopForalls...), cands[dn]...) {
				if t.Sort != smt.Str {
					continue
				}
				ev.vars[dn] = tval{t, nil}
				ev.oldVars[dn] = tval{t, nil}
				nz := smt.Ne(ex.amtOf(cv, t), smt.IntC(0))
				ev.inOld = true
				for _, c := range kc.clauses {
					ex.assume(smt.Implies(nz, ev.bool(c.Expr)))
				}
				ev.inOld = false
			}
			var mod *smt.Term
			if mv, ok := ev.vars["moduleName"]; ok {
				mod, _ = mv.V.(*smt.Term)
			}
			ex.SupplyEvents = append(ex.SupplyEvents, SupplyEvent{Kind: kc.kind, Coins: cv, Module: mod, Pos: "via " + calleeKey})
		}
	}
	ex.UsedContracts[ct.PkgPath+" "+ct.Key] = true
	return res
}

var _ = types.Typ

// heapTarget resolves a `modifies *p` / `modifies *p.Field` item to the pointer it names.
func (ev *evalEnv) heapTarget(e ast.Expr) *PtrV {
	ex := ev.ex
	if sel, ok := e.(*ast.SelectorExpr); ok {
		base := ev.heapTarget(sel.X)
		st, ok := base.T.Underlying().(*types.Struct)
		if !ok {
			ev.fail(e, "modifies: %s is not a struct", exprString(sel.X))
		}
		for i := 0; i < st.NumFields(); i++ {
			if st.Field(i).Name() == sel.Sel.Name {
				path := append(append([]int(nil), base.Path...), i)
				return &PtrV{C: base.C, Path: path, T: st.Field(i).Type()}
			}
		}
		ev.fail(e, "modifies: no field %s", sel.Sel.Name)
	}
	p, ok := ex.force(ev.eval(e).V).(*PtrV)
	if !ok {
		ev.fail(e, "modifies: not a pointer")
	}
	return p
}

// heapFrame: what a pointer parameter points to may change only where the contract's
// modifies clause says so. Compared field by field with the entry snapshot.
func (e *Env) heapFrame(ex *Exec, fn *ssa.Function, ct *Contract, ev *evalEnv, args []Val) {
	mods, err := parseModifies(ct.Modifies)
	if err != nil {
		return
	}
	fkey := FuncKey(fn)
	type tgt struct {
		c    *Cell
		path []int
	}
	var allowed []tgt
	for _, m := range mods {
		if m.Kind == "world" && m.Cond == nil {
			// world does not include the caller's heap
		}
		if m.Kind == "ptr" {
			p := ev.heapTarget(m.Expr)
			allowed = append(allowed, tgt{p.C, p.Path})
		}
	}
	covered := func(c *Cell, path []int) bool {
		for _, a := range allowed {
			if a.c != c || len(a.path) > len(path) {
				continue
			}
			ok := true
			for i := range a.path {
				if a.path[i] != path[i] {
					ok = false
				}
			}
			if ok {
				return true
			}
		}
		return false
	}
	// by-value arguments share the backing arrays of their slices with the caller: the elements
	// as the caller handed them in must be unchanged unless an `elems:` item names the slice
	elemAllowed := map[string]bool{}
	for _, m := range mods {
		if m.Kind == "elems" {
			var sb strings.Builder
			writeExpr(&sb, m.Expr)
			elemAllowed[sb.String()] = true
		}
	}
	for i, p := range fn.Params {
		if _, isPtr := args[i].(*PtrV); isPtr {
			continue
		}
		if _, isCtx := args[i].(*CtxV); isCtx {
			continue
		}
		old, ok := ev.oldVars[paramName(p, i)]
		if !ok {
			continue
		}
		var walk func(cur, was Val, path string, depth int)
		walk = func(cur, was Val, path string, depth int) {
			if depth > 3 || cur == nil || was == nil {
				return
			}
			if lz, ok := cur.(*LazyV); ok && !ex.revealed(lz) {
				return // never looked into: nothing was written through it
			}
			cur, was = ex.force(cur), ex.force(was)
			switch x := cur.(type) {
			case *StructV:
				y, ok := was.(*StructV)
				if !ok || len(x.F) != len(y.F) {
					return
				}
				st, _ := x.T.Underlying().(*types.Struct)
				for k := range x.F {
					n := fmt.Sprint(k)
					if st != nil {
						n = st.Field(k).Name()
					}
					walk(x.F[k], y.F[k], path+"."+n, depth+1)
				}
			case *SliceV:
				if elemAllowed[path] || x.Arr == nil {
					return
				}
				y, ok := ex.forceSliceVal(was)
				if !ok || y.Arr == nil {
					return
				}
				n := x.Len
				if y.Len < n {
					n = y.Len
				}
				for k := 0; k < n; k++ {
					ex.oblige(fkey+"/frame:heap:elems:"+path, ex.sameVal(x.Arr.Elems[x.Off+k].V, y.Arr.Elems[y.Off+k].V), "element of a slice shared with the caller changed outside modifies")
				}
			}
		}
		walk(args[i], old.V, paramName(p, i), 0)
	}
	for i, p := range fn.Params {
		pv, ok := args[i].(*PtrV)
		if !ok || pv.C == nil {
			continue
		}
		old, ok := ev.oldVars[paramName(p, i)]
		if !ok {
			continue
		}
		opv, ok := old.V.(*PtrV)
		if !ok || opv.C == nil {
			continue
		}
		var cmp func(cur, was Val, path []int, name string)
		cmp = func(cur, was Val, path []int, name string) {
			if covered(pv.C, path) {
				return
			}
			if elemAllowed[strings.TrimPrefix(name, "*")] {
				// in-place element writes of this slice are allowed; its header must stay
				cs, ok1 := ex.force(cur).(*SliceV)
				ws, ok2 := ex.forceSliceVal(was)
				if ok1 && ok2 && cs.Len == ws.Len {
					return
				}
			}
			cur, was = ex.force(cur), ex.force(was)
			cs, ok1 := cur.(*StructV)
			ws, ok2 := was.(*StructV)
			if ok1 && ok2 && len(cs.F) == len(ws.F) {
				st, _ := cs.T.Underlying().(*types.Struct)
				for k := range cs.F {
					fname := fmt.Sprint(k)
					if st != nil {
						fname = st.Field(k).Name()
					}
					cmp(cs.F[k], ws.F[k], append(append([]int(nil), path...), k), name+"."+fname)
				}
				return
			}
			ex.oblige(fkey+"/frame:heap:"+name, ex.sameVal(cur, was), "pointee changed outside modifies")
		}
		cmp(pv.C.V, opv.C.V, nil, "*"+paramName(p, i))
	}
}

// sameVal: the two values are certainly equal (structurally, without forcing lazies).
func (ex *Exec) sameVal(a, b Val) *smt.Term {
	switch x := a.(type) {
	case *smt.Term:
		if y, ok := b.(*smt.Term); ok && x.Sort == y.Sort {
			return smt.Eq(x, y)
		}
		if y, ok := b.(*LazyV); ok {
			if srt, ok := scalarSort(y.T); ok && srt == x.Sort {
				return smt.Eq(x, y.Nm.Leaf(srt))
			}
		}
	case *LazyV:
		switch y := b.(type) {
		case *LazyV:
			same := x.Nm.Prefix == y.Nm.Prefix && len(x.Nm.Keys) == len(y.Nm.Keys)
			if same {
				for i := range x.Nm.Keys {
					if x.Nm.Keys[i] != y.Nm.Keys[i] {
						same = false
					}
				}
			}
			return smt.BoolC(same)
		case *smt.Term:
			return ex.sameVal(b, a)
		case *SliceV, *StructV, *CoinsV, *PtrV:
			return ex.sameVal(ex.forceAny(x), b)
		}
	case *StructV:
		if y, ok := b.(*LazyV); ok {
			return ex.sameVal(a, ex.force(y))
		}
		if y, ok := b.(*StructV); ok && len(x.F) == len(y.F) {
			r := smt.True
			for i := range x.F {
				r = smt.And(r, ex.sameVal(x.F[i], y.F[i]))
			}
			return r
		}
	case *SliceV:
		if y, ok := b.(*LazyV); ok {
			return ex.sameVal(a, ex.forceAny(y))
		}
		if y, ok := b.(*SliceV); ok {
			if x.Len != y.Len || (x.Arr == nil) != (y.Arr == nil) {
				return smt.False
			}
			r := smt.True
			for i := 0; i < x.Len; i++ {
				r = smt.And(r, ex.sameVal(x.Arr.Elems[x.Off+i].V, y.Arr.Elems[y.Off+i].V))
			}
			return r
		}
	case *PtrV:
		if y, ok := b.(*LazyV); ok {
			return ex.sameVal(a, ex.force(y))
		}
		if y, ok := b.(*PtrV); ok {
			if (x.C == nil) != (y.C == nil) {
				return smt.False
			}
			if x.C == nil {
				return smt.True
			}
			return ex.sameVal(ex.load(x), ex.load(y))
		}
	case *CoinsV:
		// compare as amount functions over the union of supports
		ca, cb := ex.asCoins(a), ex.asCoins(b)
		return ex.forallDenom(func(d *smt.Term) *smt.Term { return smt.Eq(ex.amtOf(ca, d), ex.amtOf(cb, d)) }, ca, cb)
	case *TimeV:
		if y, ok := b.(*TimeV); ok {
			return smt.Eq(x.Unix, y.Unix)
		}
	case *BytesV:
		if y, ok := b.(*BytesV); ok && x == y {
			return smt.True
		}
	case *OpaqueV, *NilV:
		return smt.True
	}
	if lb, ok := b.(*LazyV); ok {
		if isCoins(lb.T) {
			return ex.sameVal(a, ex.asCoins(lb))
		}
	}
	return smt.False
}

func (ex *Exec) forceAny(lz *LazyV) Val {
	if _, ok := lz.T.Underlying().(*types.Slice); ok && !isCoins(lz.T) && !isByteSlice(lz.T) {
		return ex.forceSlice(lz)
	}
	if isCoins(lz.T) {
		return ex.asCoins(lz)
	}
	return ex.force(lz)
}

// CheckLemma produces the obligations of a pure lemma.
func (e *Env) CheckLemma(l *Lemma) []*Oblig {
	var out []*Oblig
	var pkg *types.Package
	for _, p := range e.Cfg.Prog.AllPackages() {
		if p.Pkg.Path() == l.PkgPath {
			pkg = p.Pkg
		}
	}
	paths, _ := e.Explore(1000, func(ex *Exec) {
		ev := &evalEnv{ex: ex, vars: map[string]tval{}, oldVars: map[string]tval{}, specs: e.Specs, pkg: pkg}
		for i, v := range l.Vars {
			ev.vars[v] = tval{smt.Var("lemma."+v, l.Sorts[i]), nil}
		}
		ex.oblige("lemma:"+l.Name, ev.bool(l.Expr), "")
	})
	for _, p := range paths {
		out = append(out, p.Obligs...)
		if p.Outcome != "return" {
			out = append(out, &Oblig{Name: "lemma:" + l.Name, Goal: smt.False, Note: "lemma evaluation " + p.Outcome + ": " + p.Msg})
		}
	}
	return out
}

func countCtx(args []Val) int {
	n := 0
	for _, a := range args {
		if _, ok := a.(*CtxV); ok {
			n++
		}
	}
	return n
}

// countOpaque: receiver-like arguments (keepers: symbolic structs of opaque dependencies)
// do not distinguish calls.
func countOpaque(ex *Exec, args []Val) int {
	n := 0
	for _, a := range args {
		switch v := a.(type) {
		case *StructV:
			if !isCoin(v.T) {
				n++
			}
		case *OpaqueV:
			n++
		}
	}
	return n
}

// stateVersion identifies the ghost-world state on this path (the number of state-changing
// steps so far); nil world = 0.
func (ex *Exec) stateVersion(w *World) int {
	if w == nil {
		return 0
	}
	return len(w.Log)
}

// CommuteCheck: two calls of fn with argument tuples X and X2 (condition c over both) leave
// the same ghost world whichever runs first, whenever all four calls succeed. Compared: every
// balance, every supply, and every row of every table either order touched (at arbitrary keys).
func (e *Env) CommuteCheck(fn *ssa.Function, ct *Contract, c *Clause, maxPaths int) *FuncResult {
	fr := &FuncResult{Fn: fn, Contract: ct, Aborts: map[string]int{}, Bounded: map[string]int{}}
	fkey := FuncKey(fn)
	e.Cfg.Deadline = time.Now().Add(60 * time.Second)
	defer func() { e.Cfg.Deadline = time.Time{} }()
	paths, capped := e.Explore(maxPaths, func(ex *Exec) {
		ex.TopKey = fkey
		ev := &evalEnv{ex: ex, vars: map[string]tval{}, oldVars: map[string]tval{}, specs: e.Specs}
		if fn.Pkg != nil {
			ev.pkg = fn.Pkg.Pkg
		}
		mk := func(suffix string, w *World) []Val {
			var args []Val
			for i, p := range fn.Params {
				name := paramName(p, i)
				var v Val
				switch {
				case isSdkCtx(p.Type()):
					v = &CtxV{W: w}
				case i == 0 && fn.Signature.Recv() != nil:
					v = ex.symbolic(p.Type(), Namer{Prefix: "arg." + name}) // same receiver for both calls
				default:
					v = ex.symbolic(p.Type(), Namer{Prefix: "arg." + name + suffix})
				}
				args = append(args, v)
				ev.vars[name+suffix] = tval{v, p.Type()}
			}
			return args
		}
		wA, wB := NewWorld(""), NewWorld("")
		a1, a2 := mk("", wA), mk("2", wA)
		ex.assume(ev.bool(c.Expr))
		okAll := smt.True
		run := func(args []Val, w *World) {
			cp := make([]Val, len(args))
			for i, a := range args {
				if _, isCtx := a.(*CtxV); isCtx {
					cp[i] = &CtxV{W: w}
				} else {
					cp[i] = copyDeep(a)
				}
			}
			r := ex.Run(fn, cp, nil)
			var errV Val
			switch rs := fn.Signature.Results(); rs.Len() {
			case 0:
			case 1:
				if isErrorType(rs.At(0).Type()) {
					errV = r
				}
			default:
				if isErrorType(rs.At(rs.Len() - 1).Type()) {
					errV = r.(TupleV)[rs.Len()-1]
				}
			}
			if errV != nil {
				okAll = smt.And(okAll, smt.Eq(ex.term(errV), ex.nilErr()))
			}
		}
		run(a1, wA)
		run(a2, wA)
		run(a2, wB)
		run(a1, wB)
		name := fkey + "/commutes:" + c.Name
		addr, den := smt.Var("any.addr", smt.Addr), smt.Var("any.denom", smt.Str)
		ex.oblige(name+"/balances", smt.Implies(okAll, smt.Eq(ex.bal(wA, addr, den), ex.bal(wB, addr, den))), "")
		ex.oblige(name+"/supply", smt.Implies(okAll, smt.Eq(ex.supply(wA, den), ex.supply(wB, den))), "")
		ids := map[string]bool{}
		for id := range wA.Tables {
			ids[id] = true
		}
		for id := range wB.Tables {
			ids[id] = true
		}
		var sorted []string
		for id := range ids {
			sorted = append(sorted, id)
		}
		sort.Strings(sorted)
		for _, id := range sorted {
			var sample []*smt.Term
			for _, w := range []*World{wA, wB} {
				if t := w.Tables[id]; t != nil && len(t.Writes) > 0 {
					sample = t.Writes[0].Key
				}
			}
			if sample == nil {
				continue // only read
			}
			var key []*smt.Term
			for i, k := range sample {
				if k.IsLit() {
					key = append(key, k) // literal key parts (prefix tags) stay
				} else {
					key = append(key, smt.Var(fmt.Sprintf("any.key%d", i), k.Sort))
				}
			}
			ra := ex.tableGet(wA, id, key)
			rb := ex.tableGet(wB, id, key)
			same := smt.BoolC((ra == nil) == (rb == nil))
			if ra != nil && rb != nil {
				switch {
				case ra.Tag == "marshal" && rb.Tag == "marshal":
					same = ex.sameVal(ra.Obj, rb.Obj)
				case ra.Row != nil && rb.Row != nil:
					same = smt.And(smt.BoolC(ra.Row.Base == rb.Row.Base), keysEq(ra.Row.Key, rb.Row.Key))
				case ra.Tag == rb.Tag && len(ra.Args) == len(rb.Args):
					same = keysEq(ra.Args, rb.Args)
				default:
					same = smt.False
				}
			}
			ex.oblige(name+"/table:"+id, smt.Implies(okAll, same), "")
		}
		if !ex.simplifyUnder(okAll).IsFalse() {
			ex.Obligs = append(ex.Obligs, &Oblig{Cover: true, Name: fkey + "/cover:commutes:" + c.Name, Hyps: append([]*smt.Term(nil), ex.pc...), Goal: smt.Not(okAll), Path: ex.pathString()})
		}
	})
	fr.Paths, fr.Capped = paths, capped
	for _, p := range paths {
		if p.Outcome == "abort" {
			fr.Aborts[p.Msg]++
		}
		for k, v := range p.Bounded {
			fr.Bounded[k] = v
		}
	}
	return fr
}

// relevantClause: a callee postcondition tagged with property ids is assumed only when the
// function under verification has a clause for one of those properties (assuming less is
// always sound; it keeps the facts of unrelated properties out of the path conditions).
func (ex *Exec) relevantClause(c *Clause) bool {
	if c.Local {
		return false
	}
	if len(c.Tags) == 0 || ex.TopFn == nil {
		return true
	}
	top := ex.Cfg.Contracts[ex.TopFn]
	if top == nil {
		return true
	}
	if ex.topTags == nil {
		ex.topTags = map[string]bool{}
		for _, l := range [][]*Clause{top.Requires, top.Ensures, top.OnPanic, top.Assumes, top.Mints, top.Burns} {
			for _, x := range l {
				for _, t := range x.Tags {
					ex.topTags[t] = true
				}
			}
		}
	}
	if len(ex.topTags) == 0 {
		return true
	}
	for _, t := range c.Tags {
		if ex.topTags[t] {
			return true
		}
	}
	return false
}

// havocObject replaces the object behind p by an unknown one, keeping the fields declared
// stable for its type (unless the callee is one of their declared writers).
func (ex *Exec) havocObject(p *PtrV, label, calleeKey string) {
	fresh := Val(&LazyV{T: p.T, Nm: Namer{Prefix: ex.freshName(label + "!heap")}})
	if env := ex.Cfg.EnvRef; env != nil {
		for _, sd := range env.Specs.Stable {
			if sd.T == nil {
				if t, err := env.lookupType(sd.PkgPath, sd.Type); err == nil {
					sd.T = t
				}
			}
			if sd.T == nil || !types.Identical(sd.T, p.T) {
				continue
			}
			writer := false
			for _, w := range sd.Writers {
				if w == calleeKey {
					writer = true
				}
			}
			if writer {
				continue
			}
			old, ok1 := ex.force(ex.load(p)).(*StructV)
			nv, ok2 := ex.force(fresh).(*StructV)
			st, ok3 := p.T.Underlying().(*types.Struct)
			if !ok1 || !ok2 || !ok3 {
				continue
			}
			for i := 0; i < st.NumFields(); i++ {
				for _, f := range sd.Fields {
					if st.Field(i).Name() == f {
						nv.F[i] = old.F[i]
					}
				}
			}
			fresh = nv
		}
	}
	ex.store(p, fresh)
}

// evalOldArg evaluates a modifies target on the current argument values (the slice header the
// caller passed; by-value parameters are not reassigned by the frame check).
func (ev *evalEnv) evalOldArg(e ast.Expr) Val {
	return ev.eval(e).V
}

func isByteSliceT(t types.Type) bool {
	sl, ok := t.Underlying().(*types.Slice)
	if !ok {
		return false
	}
	b, ok := sl.Elem().Underlying().(*types.Basic)
	return ok && b.Kind() == types.Uint8
}

// assumeQuantified asserts forall <foralls>. clause for each clause that mentions a quantified
// variable and evaluates without forking.
func (ex *Exec) assumeQuantified(ev *evalEnv, ct *Contract, fnames []string, clauses []*Clause, filter bool) {
	saved := map[string]tval{}
	var bvs []*smt.Term
	for _, n := range fnames {
		saved[n] = ev.vars[n]
		bv := smt.Var(ex.freshName("q!"+n), ct.Foralls[n])
		bvs = append(bvs, bv)
		ev.vars[n] = tval{bv, nil}
		ev.oldVars[n] = tval{bv, nil}
	}
	defer func() {
		for _, n := range fnames {
			ev.vars[n] = saved[n]
			ev.oldVars[n] = saved[n]
		}
	}()
	for _, c := range clauses {
		if filter && !ex.relevantClause(c) {
			continue
		}
		c := c
		// evaluated under the bound variables now and again whenever a collection the clause
		// read opaquely is revealed (the quantified fact then speaks about its elements)
		inOld := ev.inOld
		vars := map[string]tval{}
		olds := map[string]tval{}
		for k, v := range ev.vars {
			vars[k] = v
		}
		for k, v := range ev.oldVars {
			olds[k] = v
		}
		ex.assumeSpec(func() *smt.Term {
			ev2 := *ev
			ev2.vars, ev2.oldVars, ev2.inOld = vars, olds, inOld
			result := smt.True
			func() {
				ex.noFork = true
				npc := len(ex.pc)
				defer func() {
					ex.noFork = false
					if r := recover(); r != nil {
						if _, ok := r.(quantSkip); ok {
							ex.pc = ex.pc[:npc]
							return
						}
						panic(r)
					}
				}()
				t := ev2.bool(c.Expr)
				mentionsBV := func(t *smt.Term) bool {
					m := false
					seen := map[*smt.Term]bool{}
					smt.Walk(t, seen, func(x *smt.Term) {
						for _, bv := range bvs {
							if x == bv {
								m = true
							}
						}
					})
					return m
				}
				side := append([]*smt.Term{}, ex.pc[npc:]...)
				ex.pc = ex.pc[:npc]
				var parts []*smt.Term
				for _, sd := range side {
					if mentionsBV(sd) {
						parts = append(parts, smt.Forall(bvs, sd))
					} else {
						parts = append(parts, sd)
					}
				}
				if mentionsBV(t) {
					parts = append(parts, smt.Forall(bvs, t))
				}
				result = smt.And(parts...)
			}()
			return result
		})
	}
}
