package sym

import (
	"go/token"
	"fmt"
	"go/types"
	"math/big"
	"strings"

	"govc/smt"

	"golang.org/x/tools/go/ssa"
)

type bigInt = big.Int

const elysMod = "github.com/elys-network/elys"

// Call is what a model sees.
type Call struct {
	Ex     *Exec
	Fn     *ssa.Function // nil for interface invocations without resolved callee
	Name   string        // canonical name used for lookup
	Args   []Val         // receiver first
	Ins    ssa.Instruction
	Common *ssa.CallCommon
	Caller *ssa.Function
	Result types.Type // result type (tuple or single) or nil
}

type Model func(c *Call) Val

var Models = map[string]Model{}

// invokeModels are keyed by "IfaceName.Method" (interface type name without package) or
// by "pkgpath.IfaceName.Method".
var invokeModels = map[string]Model{}

func reg(m Model, names ...string) {
	for _, n := range names {
		Models[n] = m
	}
}
func regInvoke(m Model, names ...string) {
	for _, n := range names {
		invokeModels[n] = m
	}
}

func (ex *Exec) resultType(common *ssa.CallCommon) types.Type {
	res := common.Signature().Results()
	switch res.Len() {
	case 0:
		return nil
	case 1:
		return res.At(0).Type()
	}
	return res
}

func (ex *Exec) doCall(fr *frame, common *ssa.CallCommon, fnv Val, args []Val, ins ssa.Instruction) Val {
	if common.IsInvoke() {
		return ex.invoke(fr, common, fnv, args, ins)
	}
	switch f := fnv.(type) {
	case *ssa.Builtin:
		return ex.builtin(fr, f, args, common, ins)
	case *ClosureV:
		return ex.callFunction(fr, f.Fn, args, f.Bind, common, ins)
	case *writeFn:
		f.Parent.W.Assign(f.Child.W)
		return nil
	case *NilV:
		ex.goPanic("call of nil function")
	case *OpaqueV:
		ex.abort("call of opaque function value %s", f.Tag)
	}
	ex.abort("call of %T", fnv)
	return nil
}

func isElysPkg(p *types.Package) bool {
	return p != nil && strings.HasPrefix(p.Path(), elysMod)
}

func allScalarParams(sig *types.Signature) bool {
	for i := 0; i < sig.Params().Len(); i++ {
		t := sig.Params().At(i).Type()
		if _, ok := scalarSort(t); ok {
			continue
		}
		if isByteSlice(t) {
			continue
		}
		return false
	}
	return true
}

func (ex *Exec) keyArgs(args []Val) ([]*smt.Term, bool) {
	var out []*smt.Term
	for _, a := range args {
		a = ex.force(a)
		switch x := a.(type) {
		case *smt.Term:
			out = append(out, x)
		case *BytesV:
			if x.Nil {
				continue
			}
			if x.Tag == "cat" {
				for _, s := range x.Sub {
					out = append(out, smt.Lit("tag:"+s.Tag, smt.Key))
					out = append(out, s.Args...)
				}
				continue
			}
			out = append(out, smt.Lit("tag:"+x.Tag, smt.Key))
			out = append(out, x.Args...)
		default:
			return nil, false
		}
	}
	return out, true
}

func (ex *Exec) callFunction(fr *frame, fn *ssa.Function, args []Val, bind []Val, common *ssa.CallCommon, ins ssa.Instruction) Val {
	name := fn.String()
	if fn.Origin() != nil { // generic instantiation: use origin's name
		name = fn.Origin().String()
	}
	c := &Call{Ex: ex, Fn: fn, Name: name, Args: args, Ins: ins, Common: common}
	if common != nil {
		c.Result = ex.resultType(common)
	} else {
		switch rs := fn.Signature.Results(); rs.Len() {
		case 0:
		case 1:
			c.Result = rs.At(0).Type()
		default:
			c.Result = rs
		}
	}
	if fr != nil {
		c.Caller = fr.fn
	}
	if m, ok := Models[name]; ok {
		return m(c)
	}
	pkg := fn.Package()
	var tpkg *types.Package
	if pkg != nil {
		tpkg = pkg.Pkg
	} else if fn.Object() != nil {
		tpkg = fn.Object().Pkg()
	}
	sig := fn.Signature
	if isElysPkg(tpkg) && fn.Synthetic == "" && len(fn.FreeVars) == 0 {
		// key builders and address builders are abstracted as injective constructors
		if sig.Results().Len() == 1 && sig.Recv() == nil && allScalarParams(sig) {
			rt := sig.Results().At(0).Type()
			if isByteSlice(rt) && !isAccAddr(rt) {
				if ka, ok := ex.keyArgs(args); ok {
					return &BytesV{Tag: tpkg.Name() + "." + fn.Name(), Args: ka}
				}
			}
		}
	}
	// a store-range iterator running the caller's callback: verified against the caller's inductive
	// invariant (for any number of elements) where the function under verification states one
	if ct := ex.Cfg.Contracts[fn]; ct != nil && ct.Iterates != "" && ex.TopCt != nil && ex.TopCt.CallbackInvs != nil && fr != nil && fr.fn == ex.TopFn {
		if inv := ex.TopCt.CallbackInvs[FuncKey(fn)]; inv != nil {
			return ex.callbackLoop(fr, fn, ct, inv, args)
		}
	}
	if ex.inSpec == 0 || true {
		if ct := ex.Cfg.Contracts[fn]; ct != nil && ex.Cfg.Modular[fn] && ex.TopFn != fn && !(ct.InlineOwn && ex.TopFn != nil && sameModule(ex.TopFn, fn)) && modularHere(ct, ex.TopFn) {
			return ex.applyContract(fr, fn, ct, args, ins)
		}
	}
	if as, ok := ex.Cfg.Abstract[name]; ok {
		return ex.applyAbstract(c, as)
	}
	if len(fn.Blocks) > 0 {
		return ex.Run(fn, args, bind)
	}
	if v, ok := ex.genericExternal(c); ok {
		return v
	}
	return ex.externalHavoc(c, "external "+name)
}

// externalHavoc is the default reading of a call the executor has neither a body, a model
// nor a contract for: when it receives a context (or a store / keeper handle) the whole ghost
// world may change; pointees of pointer arguments may change; results are arbitrary. This
// over-approximates every possible behaviour of the callee except non-termination.
func (ex *Exec) externalHavoc(c *Call, what string) Val {
	if ex.Cfg.StrictExternals {
		ex.abort("unmodelled %s", what)
	}
	touchesState := false
	for _, a := range c.Args {
		switch v := ex.force(a).(type) {
		case *CtxV:
			ex.havocEverything(v.W)
			touchesState = true
		case *StoreV:
			ex.havocEverything(v.W)
			touchesState = true
		case *PtrV:
			if v.C != nil {
				ex.store(v, &LazyV{T: v.T, Nm: Namer{Prefix: ex.freshName("exthavoc!" + c.Name)}})
			}
		}
	}
	tag := "external-havoc"
	if !touchesState {
		tag = "external-fresh"
	}
	ex.Calls = append(ex.Calls, tag+": "+what)
	ex.Externals[tag+": "+what] = true
	if c.Result == nil {
		return nil
	}
	return ex.symbolicResult(c.Result, Namer{Prefix: ex.site("ext!" + c.Name)})
}

// applyAbstract: fresh results, declared havoc.
func (ex *Exec) applyAbstract(c *Call, as *AbstractSpec) Val {
	w := ex.findWorld(c.Args)
	if w != nil {
		for _, id := range as.HavocTables {
			if id == "*" {
				ex.havocEverything(w)
				break
			}
			for tid := range w.Tables {
				if strings.HasPrefix(tid, id) {
					ex.tableHavoc(w, tid)
				}
			}
			if _, ok := w.Tables[id]; !ok {
				ex.tableHavoc(w, id)
			}
		}
		if as.HavocBank {
			ex.bankHavocAll(w)
		}
	}
	if c.Result == nil {
		return nil
	}
	if as.Pure {
		if ka, ok := ex.keyArgs(scalarOnly(c.Args)); ok {
			return ex.symbolicResult(c.Result, Namer{Prefix: "uf!" + c.Name, Keys: ka})
		}
	}
	return ex.symbolicResult(c.Result, Namer{Prefix: ex.site("res!" + c.Name)})
}

func scalarOnly(args []Val) []Val {
	var out []Val
	for _, a := range args {
		switch a.(type) {
		case *smt.Term, *BytesV:
			out = append(out, a)
		}
	}
	return out
}

func (ex *Exec) symbolicResult(t types.Type, nm Namer) Val {
	if tup, ok := t.(*types.Tuple); ok {
		tv := make(TupleV, tup.Len())
		for i := range tv {
			tv[i] = ex.symbolic(tup.At(i).Type(), nm.Sub(fmt.Sprintf("r%d", i)))
		}
		return tv
	}
	return ex.symbolic(t, nm)
}

func (ex *Exec) havocEverything(w *World) {
	for tid := range w.Tables {
		ex.tableHavoc(w, tid)
	}
	ex.bankHavocAll(w)
	w.Opaque["*"]++
	for _, d := range ex.Cfg.Aggs {
		ex.fresh++
		w.Aggs[d.Name] = &AggState{Base: fmt.Sprintf("%sagg!%s!h%d", ex.worldBase, d.Name, ex.fresh)}
	}
	w.Log = append(w.Log, "havoc world")
}

// applyEffects havocs what an inferred effect set says may change.
func (ex *Exec) applyEffects(w *World, effects []string) {
	for _, e := range effects {
		if strings.HasPrefix(e, "sdk:") {
			ex.havocEverything(w)
			return
		}
	}
	for _, e := range effects {
		switch {
		case e == "bank":
			supply := false
			for _, e2 := range effects {
				if e2 == "bank:supply" {
					supply = true
				}
			}
			if supply {
				ex.bankHavocAll(w)
			} else {
				ex.bankHavocBalances(w)
			}
			w.Log = append(w.Log, "havoc bank")
		case strings.HasPrefix(e, "store:"):
			ex.havocModule(w, strings.TrimPrefix(e, "store:"))
		case strings.HasPrefix(e, "table:"):
			ex.tableHavoc(w, strings.TrimPrefix(e, "table:"))
		}
	}
}

func (ex *Exec) findWorld(args []Val) *World {
	for _, a := range args {
		if c, ok := a.(*CtxV); ok {
			return c.W
		}
	}
	return nil
}

// invoke handles interface method calls.
func (ex *Exec) invoke(fr *frame, common *ssa.CallCommon, recv Val, args []Val, ins ssa.Instruction) Val {
	recv = ex.force(recv)
	mname := common.Method.Name()
	itype := common.Value.Type()
	all := append([]Val{recv}, args...)
	c := &Call{Ex: ex, Name: mname, Args: all, Ins: ins, Common: common, Result: ex.resultType(common)}
	if fr != nil {
		c.Caller = fr.fn
	}
	switch r := recv.(type) {
	case *IfaceV:
		ms := ex.Cfg.Prog.MethodSets.MethodSet(r.Dyn)
		sel := ms.Lookup(common.Method.Pkg(), mname)
		if sel == nil {
			ex.abort("method %s not found on %s", mname, r.Dyn)
		}
		fn := ex.Cfg.Prog.MethodValue(sel)
		if fn == nil {
			ex.abort("no method value for %s.%s", r.Dyn, mname)
		}
		return ex.callFunction(fr, fn, append([]Val{r.V}, args...), nil, common, ins)
	case *NilV:
		ex.goPanic("method call on nil interface")
	case *smt.Term:
		if r.Sort == smt.Err {
			if mname == "Error" {
				return smt.App("errmsg", smt.Str, r)
			}
		}
	case *CtxV:
		if m, ok := invokeModels["Context."+mname]; ok {
			return m(c)
		}
	}
	// model by interface name
	var keys []string
	if n, ok := types.Unalias(itype).(*types.Named); ok {
		if n.Obj().Pkg() != nil {
			keys = append(keys, n.Obj().Pkg().Path()+"."+n.Obj().Name()+"."+mname)
		}
		keys = append(keys, n.Obj().Name()+"."+mname)
	}
	keys = append(keys, "*."+mname)
	for _, k := range keys {
		if m, ok := invokeModels[k]; ok {
			return m(c)
		}
	}
	// contract attached to the interface method (hooks, keepers of other modules)
	if n, ok := types.Unalias(itype).(*types.Named); ok {
		if ct := ex.Cfg.IfaceContracts[n.Obj().Name()+"."+mname]; ct != nil {
			sig := common.Method.Type().(*types.Signature)
			names := []string{"recv"}
			ptypes := []types.Type{itype}
			for i := 0; i < sig.Params().Len(); i++ {
				pn := sig.Params().At(i).Name()
				if pn == "" || pn == "_" {
					pn = fmt.Sprintf("arg%d", i)
				}
				names = append(names, pn)
				ptypes = append(ptypes, sig.Params().At(i).Type())
			}
			return ex.applyContractSig(fr, n.Obj().Name()+"."+mname, n.Obj().Pkg(), names, ptypes, sig.Results(), ct, all)
		}
	}
	// resolve to the unique elys implementation
	if ex.Cfg.Resolver != nil {
		if fn := ex.Cfg.Resolver(itype, mname); fn != nil {
			rt := fn.Signature.Recv().Type()
			rv := ex.symbolic(rt, Namer{Prefix: "keeper!" + typeString(rt)})
			return ex.callFunction(fr, fn, append([]Val{rv}, args...), nil, common, ins)
		}
	}
	// several elys implementations (hook interfaces): fresh results, and the ghost state the
	// implementations may write according to the call-graph frame inference
	if ex.Cfg.IfaceFrame != nil {
		if effects, n := ex.Cfg.IfaceFrame(itype, mname); n > 0 {
			if w := ex.findWorld(all); w != nil {
				ex.applyEffects(w, effects)
			}
			tag := "inferred-frame: " + typeString(itype) + "." + mname + " may write [" + strings.Join(effects, " ") + "]"
			ex.Externals[tag] = true
			if c.Result == nil {
				return nil
			}
			return ex.symbolicResult(c.Result, Namer{Prefix: ex.site("hook!" + mname)})
		}
	}
	return ex.externalHavoc(c, "invoke "+typeString(itype)+"."+mname)
}

func (ex *Exec) builtin(fr *frame, b *ssa.Builtin, args []Val, common *ssa.CallCommon, ins ssa.Instruction) Val {
	switch b.Name() {
	case "len", "cap":
		x := ex.force(args[0])
		switch v := x.(type) {
		case *SliceV:
			if b.Name() == "cap" {
				return smt.IntC(int64(v.Cap))
			}
			return smt.IntC(int64(v.Len))
		case *LazyV, *CoinsV:
			sl := ex.forceSlice(v)
			return smt.IntC(int64(sl.Len))
		case *BytesV:
			if v.Nil {
				return smt.IntC(0)
			}
			if v.Tag == "row" || v.Tag == "marshal" {
				// stored values are never empty (proto messages with at least one set field)
				l := smt.App("byteslen!"+v.Tag, smt.Int, v.Args...)
				if v.Row != nil {
					l = smt.App(v.Row.Base+"!byteslen", smt.Int, v.Row.Key...)
				}
				if v.Tag == "marshal" {
					l = smt.Var(ex.freshName("marshal!len"), smt.Int)
				}
				ex.assume(smt.Gt(l, smt.IntC(0)))
				return l
			}
			l := smt.App("byteslen!"+v.Tag, smt.Int, v.Args...)
			ex.assume(smt.Ge(l, smt.IntC(0)))
			return l
		case *smt.Term:
			if v.Sort == smt.Str {
				if v.IsLit() {
					return smt.IntC(int64(len(v.Name)))
				}
				l := smt.App("strlen", smt.Int, v)
				ex.assume(smt.Ge(l, smt.IntC(0)))
				return l
			}
		case *MapV:
			// distinct keys are maintained by mapFind
			return smt.IntC(int64(len(v.Entries)))
		case *NilV:
			return smt.IntC(0)
		}
		ex.abort("len of %T", x)
	case "append":
		return ex.appendOp(args[0], args[1], common)
	case "copy":
		// copy(dst, src) on materialised slices: element-wise, min(len) elements
		dst, ok1 := ex.forceSliceVal(args[0])
		src, ok2 := ex.forceSliceVal(args[1])
		if !ok1 || !ok2 {
			ex.abort("builtin copy on %T, %T", args[0], args[1])
		}
		n := dst.Len
		if src.Len < n {
			n = src.Len
		}
		for i := 0; i < n; i++ {
			dst.Arr.Elems[dst.Off+i].V = copyDeep(src.Arr.Elems[src.Off+i].V)
		}
		return smt.IntC(int64(n))
	case "panic":
		ex.goPanic("explicit panic")
	case "recover":
		// inside a deferred call while the enclosing frame is panicking
		if n := len(ex.recovering); n > 0 {
			// the closure calling recover() is run by runDefers of frame recovering[n-1]
			f := ex.recovering[n-1]
			if f.panicking != nil && !f.recovered {
				f.recovered = true
				return &IfaceV{Dyn: types.Typ[types.String], V: smt.StrC("panic:" + f.panicking.msg)}
			}
		}
		return &NilV{}
	case "delete":
		m, ok := args[0].(*MapV)
		if !ok {
			ex.abort("delete on %T", args[0])
		}
		if i := ex.mapFind(m, args[1]); i >= 0 {
			m.Entries = append(m.Entries[:i:i], m.Entries[i+1:]...)
		}
		return nil
	case "min", "max":
		r := ex.term(args[0])
		for _, a := range args[1:] {
			if b.Name() == "min" {
				r = smt.Min(r, ex.term(a))
			} else {
				r = smt.Max(r, ex.term(a))
			}
		}
		return r
	case "print", "println":
		return nil
	}
	ex.abort("unsupported builtin %s", b.Name())
	return nil
}

func (ex *Exec) appendOp(s, more Val, common *ssa.CallCommon) Val {
	s, more = ex.force(s), ex.force(more)
	// byte strings: symbolic concatenation
	if b, ok := s.(*BytesV); ok {
		switch m := more.(type) {
		case *BytesV:
			if m.Nil {
				return b
			}
			if b.Nil {
				return m
			}
			var sub []*BytesV
			if b.Tag == "cat" {
				sub = append(sub, b.Sub...)
			} else {
				sub = append(sub, b)
			}
			if m.Tag == "cat" {
				sub = append(sub, m.Sub...)
			} else {
				sub = append(sub, m)
			}
			return &BytesV{Tag: "cat", Sub: sub}
		case *smt.Term: // append(bytes, string...)
			return ex.appendOp(b, &BytesV{Tag: "str", Args: []*smt.Term{m}}, common)
		case *SliceV:
			if m.Len == 0 {
				return b
			}
		}
		ex.abort("append to bytes of %T", more)
	}
	if _, ok := more.(*BytesV); ok {
		ex.abort("append bytes to %T", s)
	}
	var dst *SliceV
	switch v := s.(type) {
	case *CoinsV:
		// append to an abstract coin collection: stays abstract (sum)
		return &CoinsV{Plus: []Val{v, more}}
	default:
		dst = ex.forceSlice(s)
	}
	if cv, ok := more.(*CoinsV); ok {
		return &CoinsV{Plus: []Val{dst, cv}}
	}
	src := ex.forceSlice(more)
	if src.Len == 0 {
		if dst.Arr == nil && src.Arr != nil {
			return &SliceV{Arr: &ArrV{ElemT: src.Arr.ElemT}, T: dst.T}
		}
		return dst
	}
	var et types.Type
	if dst.Arr != nil {
		et = dst.Arr.ElemT
	} else if src.Arr != nil {
		et = src.Arr.ElemT
	}
	if dst.Arr != nil && dst.Len+src.Len <= dst.Cap {
		// in place: visible through every header sharing the backing array
		vals := make([]Val, src.Len)
		for i := 0; i < src.Len; i++ {
			vals[i] = copyVal(src.Arr.Elems[src.Off+i].V)
		}
		for i := 0; i < src.Len; i++ {
			dst.Arr.Elems[dst.Off+dst.Len+i].V = vals[i]
		}
		return &SliceV{Arr: dst.Arr, Off: dst.Off, Len: dst.Len + src.Len, Cap: dst.Cap, T: dst.T}
	}
	arr := &ArrV{ElemT: et}
	for i := 0; i < dst.Len; i++ {
		arr.Elems = append(arr.Elems, &Cell{V: copyVal(dst.Arr.Elems[dst.Off+i].V), T: et})
	}
	for i := 0; i < src.Len; i++ {
		arr.Elems = append(arr.Elems, &Cell{V: copyVal(src.Arr.Elems[src.Off+i].V), T: et})
	}
	n := len(arr.Elems)
	return &SliceV{Arr: arr, Len: n, Cap: n, T: dst.T}
}

// genericExternal gives uninteresting external functions a default reading: effect-free
// with a fresh (or uninterpreted) result. Only packages on the effect-free list qualify.
func (ex *Exec) genericExternal(c *Call) (Val, bool) {
	name := c.Name
	effectFree := false
	for _, p := range effectFreePrefixes {
		if strings.HasPrefix(name, p) || strings.HasPrefix(name, "("+p) || strings.HasPrefix(name, "(*"+p) {
			effectFree = true
			break
		}
	}
	if !effectFree {
		return nil, false
	}
	if c.Result == nil {
		return nil, true
	}
	if ka, ok := ex.keyArgs(scalarOnly(c.Args)); ok && len(ka) > 0 && len(scalarOnly(c.Args)) == len(c.Args) {
		return ex.symbolicResult(c.Result, Namer{Prefix: "uf!" + name, Keys: ka}), true
	}
	return ex.symbolicResult(c.Result, Namer{Prefix: ex.site("ext!" + name)}), true
}

// effectFreePrefixes: external packages whose functions neither touch chain state nor
// matter to any property (logging, events, telemetry, formatting, strings).
var effectFreePrefixes = []string{
	"cosmossdk.io/log.",
	"github.com/cosmos/cosmos-sdk/telemetry.",
	"github.com/hashicorp/go-metrics.",
	"github.com/armon/go-metrics.",
	"fmt.",
	"strings.",
	"strconv.",
	"errors.",
	"sort.",
	"github.com/cosmos/cosmos-sdk/types.NewEvent",
	"github.com/cosmos/cosmos-sdk/types.NewAttribute",
	"github.com/cosmos/cosmos-sdk/types.EventManager",
	"github.com/cosmos/cosmos-sdk/types.Event",
	"google.golang.org/grpc/status.",
	"google.golang.org/grpc/codes.",
	"encoding/binary.",
	"encoding/hex.",
	"encoding/json.",
	"unicode.",
	"regexp.",
	"math.",
}

func modOfFn(fn *ssa.Function) string {
	for fn.Parent() != nil {
		fn = fn.Parent()
	}
	p := ""
	if fn.Pkg != nil {
		p = fn.Pkg.Pkg.Path()
	} else if fn.Object() != nil && fn.Object().Pkg() != nil {
		p = fn.Object().Pkg().Path()
	}
	i := strings.Index(p, "/x/")
	if i < 0 {
		return p
	}
	rest := p[i+3:]
	if j := strings.Index(rest, "/"); j >= 0 {
		rest = rest[:j]
	}
	return rest
}

func sameModule(a, b *ssa.Function) bool { return modOfFn(a) == modOfFn(b) }

// forceSliceVal materialises a slice value (bounded for symbolic collections).
func (ex *Exec) forceSliceVal(v Val) (*SliceV, bool) {
	v = ex.force(v)
	switch x := v.(type) {
	case *SliceV:
		if x.Arr == nil {
			return &SliceV{Arr: &ArrV{}, T: x.T}, true
		}
		return x, true
	case *LazyV, *CoinsV:
		return ex.forceSlice(x), true
	}
	return nil, false
}

// modularHere: a contract restricted by `modular-for` replaces the body only under the named
// top-level functions.
func modularHere(ct *Contract, top *ssa.Function) bool {
	if len(ct.ModularFor) == 0 {
		return true
	}
	if top == nil {
		return false
	}
	k := FuncKey(top)
	for _, m := range ct.ModularFor {
		if m == k {
			return true
		}
	}
	return false
}


// callbackLoop: fn calls the function value handed in as its `iterates` parameter once per element of
// a store range and writes nothing itself. With an invariant I stated by the function under
// verification: I is an obligation before the loop; then everything the callback may write (inferred
// frame, captured variables) is made arbitrary and I assumed; on one forked path the callback runs once
// for an arbitrary element and I is an obligation again (that path ends there); the other path goes on
// after the loop knowing I. Sound for every number of iterations, early stop included.
func (ex *Exec) callbackLoop(fr *frame, fn *ssa.Function, ct *Contract, inv *Clause, args []Val) Val {
	idx := -1
	for i, p := range fn.Params {
		if p.Name() == ct.Iterates {
			idx = i
		}
	}
	if idx < 0 {
		ex.abort("iterates: %s has no parameter %s", fn, ct.Iterates)
	}
	cl, ok := ex.force(args[idx]).(*ClosureV)
	if !ok {
		ex.abort("iterates: the callback handed to %s is not a function literal", fn)
	}
	ev := ex.TopEv
	bind := func() {
		for i, fv := range cl.Fn.FreeVars {
			if i >= len(cl.Bind) {
				break
			}
			if p, ok := cl.Bind[i].(*PtrV); ok && p.C != nil {
				ev.vars[fv.Name()] = tval{p.C.V, p.T}
			} else {
				ev.vars[fv.Name()] = tval{cl.Bind[i], fv.Type()}
			}
		}
	}
	name := ex.TopKey + "/invariant:" + inv.Name
	bind()
	ex.oblige(name+"/holds-before-the-loop", ev.bool(inv.Expr), "")
	w := ex.findWorld(args)
	if w != nil && ex.Cfg.FuncFrame != nil {
		ex.applyEffects(w, ex.Cfg.FuncFrame(cl.Fn))
	} else if w != nil {
		ex.havocEverything(w)
	}
	written := writtenFreeVars(cl.Fn)
	for i := range cl.Fn.FreeVars {
		if i >= len(cl.Bind) {
			break
		}
		if !written[cl.Fn.FreeVars[i]] {
			continue // read-only capture (context, parameters): keeps its value
		}
		if p, ok := cl.Bind[i].(*PtrV); ok && p.C != nil {
			p.C.V = ex.symbolic(p.T, Namer{Prefix: ex.site("loop!" + cl.Fn.FreeVars[i].Name())})
		}
	}
	exit := ex.TopCt.CallbackExits[FuncKey(fn)]
	bind()
	if ex.branch(smt.Var(ex.site("loop!iteration"), smt.Bool)) {
		ex.assume(ev.bool(inv.Expr))
		var elems []Val
		for i, p := range cl.Fn.Params {
			elems = append(elems, ex.symbolic(p.Type(), Namer{Prefix: ex.site(fmt.Sprintf("loop!elem%d", i))}))
		}
		res := ex.callFunction(fr, cl.Fn, elems, cl.Bind, nil, nil)
		stop, isTerm := res.(*smt.Term)
		if !isTerm || stop.Sort != smt.Bool {
			ex.abort("iterates: the callback of %s does not answer a boolean", fn)
		}
		bind()
		if exit == nil {
			ex.oblige(name+"/kept-by-an-iteration", ev.bool(inv.Expr), "")
		} else {
			ex.oblige(name+"/kept-by-an-iteration", smt.Implies(smt.Not(stop), ev.bool(inv.Expr)), "")
			ex.oblige(ex.TopKey+"/invariant:"+exit.Name+"/holds-when-the-callback-stops-the-loop", smt.Implies(stop, ev.bool(exit.Expr)), "")
		}
		panic(loopStepDone{})
	}
	if exit == nil {
		ex.assume(ev.bool(inv.Expr))
	} else {
		ex.assume(smt.Or(ev.bool(inv.Expr), ev.bool(exit.Expr)))
	}
	ex.UsedContracts[FuncKey(fn)+" (iterates: the caller's callback-invariant stands for the loop)"] = true
	return nil
}


// writtenFreeVars: the captured variables a function literal may assign (a store through the captured
// address or an address derived from it, or the address escaping into a call or a nested literal).
func writtenFreeVars(fn *ssa.Function) map[*ssa.FreeVar]bool {
	out := map[*ssa.FreeVar]bool{}
	var root func(v ssa.Value, depth int) *ssa.FreeVar
	root = func(v ssa.Value, depth int) *ssa.FreeVar {
		if depth > 8 {
			return nil
		}
		switch x := v.(type) {
		case *ssa.FreeVar:
			return x
		case *ssa.FieldAddr:
			return root(x.X, depth+1)
		case *ssa.IndexAddr:
			return root(x.X, depth+1)
		}
		return nil
	}
	// the captured variable a map value was loaded from
	mapRoot := func(v ssa.Value) *ssa.FreeVar {
		if u, ok := v.(*ssa.UnOp); ok && u.Op == token.MUL {
			return root(u.X, 0)
		}
		return root(v, 0)
	}
	for _, b := range fn.Blocks {
		for _, ins := range b.Instrs {
			switch x := ins.(type) {
			case *ssa.Store:
				if fv := root(x.Addr, 0); fv != nil {
					out[fv] = true
				}
			case *ssa.MapUpdate:
				// a captured map updated in place: its contents after the loop are unknown
				if fv := mapRoot(x.Map); fv != nil {
					out[fv] = true
				}
			case ssa.CallInstruction:
				for _, a := range x.Common().Args {
					if fv := root(a, 0); fv != nil {
						out[fv] = true
					}
				}
			case *ssa.MakeClosure:
				for _, a := range x.Bindings {
					if fv := root(a, 0); fv != nil {
						out[fv] = true
					}
				}
			}
		}
	}
	return out
}
