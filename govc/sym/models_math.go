package sym

import (
	"math/big"
	"strings"

	"govc/smt"
)

var e18 = new(big.Int).Exp(big.NewInt(10), big.NewInt(18), nil)
var e36 = new(big.Int).Exp(big.NewInt(10), big.NewInt(36), nil)

func tE18() *smt.Term { return smt.IntBig(e18) }

// rheNonNeg is banker's rounding of n/10^18 for n >= 0 (chopPrecisionAndRound).
func rheNonNeg(n *smt.Term) *smt.Term {
	d := tE18()
	q := smt.EDiv(n, d)
	r := smt.EMod(n, d)
	half := smt.IntBig(new(big.Int).Div(e18, big.NewInt(2)))
	return smt.Ite(smt.Lt(r, half), q,
		smt.Ite(smt.Gt(r, half), smt.Add(q, smt.IntC(1)),
			smt.Ite(smt.Eq(smt.EMod(q, smt.IntC(2)), smt.IntC(0)), q, smt.Add(q, smt.IntC(1)))))
}

func rhe(n *smt.Term) *smt.Term {
	return smt.Ite(smt.Ge(n, smt.IntC(0)), rheNonNeg(n), smt.Neg(rheNonNeg(smt.Neg(n))))
}

// truncE18 is truncation toward zero of n/10^18.
func truncE18(n *smt.Term) *smt.Term { return smt.TDiv(n, tE18()) }

// roundUpE18: chopPrecisionAndRoundUp — positive: ceil; negative: toward zero.
func roundUpE18(n *smt.Term) *smt.Term {
	d := tE18()
	pos := smt.Ite(smt.Eq(smt.EMod(n, d), smt.IntC(0)), smt.EDiv(n, d), smt.Add(smt.EDiv(n, d), smt.IntC(1)))
	return smt.Ite(smt.Ge(n, smt.IntC(0)), pos, smt.Neg(smt.EDiv(smt.Neg(n), d)))
}

func isConst(t *smt.Term) bool { _, ok := t.ConstInt(); return ok }

// decMul: exact when a factor is constant (linear); otherwise either exact nonlinear or,
// in abstract mode, an uninterpreted product with sign/zero/rounding-interval facts.
func (ex *Exec) decMulWith(a, b *smt.Term, round func(*smt.Term) *smt.Term, tag string) *smt.Term {
	if isConst(a) || isConst(b) || !ex.Cfg.DecAbstract {
		return round(smt.Mul(a, b))
	}
	if a.ID() > b.ID() {
		a, b = b, a
	}
	r := smt.App("dec"+tag, smt.Int, a, b)
	z := smt.IntC(0)
	ex.assume(smt.Implies(smt.Or(smt.Eq(a, z), smt.Eq(b, z)), smt.Eq(r, z)))
	ex.assume(smt.Implies(smt.And(smt.Ge(a, z), smt.Ge(b, z)), smt.Ge(r, z)))
	ex.assume(smt.Implies(smt.And(smt.Le(a, z), smt.Le(b, z)), smt.Ge(r, z)))
	ex.assume(smt.Implies(smt.And(smt.Ge(a, z), smt.Le(b, z)), smt.Le(r, z)))
	ex.assume(smt.Implies(smt.And(smt.Le(a, z), smt.Ge(b, z)), smt.Le(r, z)))
	// multiplying by exactly one
	one := tE18()
	ex.assume(smt.Implies(smt.Eq(a, one), smt.Eq(r, b)))
	ex.assume(smt.Implies(smt.Eq(b, one), smt.Eq(r, a)))
	// 0 <= f <= 1 shrinks a non-negative value
	ex.assume(smt.Implies(smt.And(smt.Ge(a, z), smt.Ge(b, z), smt.Le(b, one)), smt.Le(r, a)))
	ex.assume(smt.Implies(smt.And(smt.Ge(b, z), smt.Ge(a, z), smt.Le(a, one)), smt.Le(r, b)))
	return r
}

func (ex *Exec) decQuoWith(a, b *smt.Term, round func(*smt.Term) *smt.Term, tag string) *smt.Term {
	// in a specification expression the quotient by zero is just an unspecified value
	if !ex.specArith && ex.branch(smt.Eq(b, smt.IntC(0))) {
		ex.goPanic("Dec division by zero")
	}
	if isConst(b) || !ex.Cfg.DecAbstract {
		// (a * 10^36) quo b, then chop 10^18
		return round(smt.TDiv(smt.Mul(smt.IntBig(e36), a), b))
	}
	r := smt.App("dec"+tag, smt.Int, a, b)
	z := smt.IntC(0)
	ex.assume(smt.Implies(smt.Eq(a, z), smt.Eq(r, z)))
	ex.assume(smt.Implies(smt.And(smt.Ge(a, z), smt.Gt(b, z)), smt.Ge(r, z)))
	ex.assume(smt.Implies(smt.And(smt.Le(a, z), smt.Lt(b, z)), smt.Ge(r, z)))
	ex.assume(smt.Implies(smt.And(smt.Ge(a, z), smt.Lt(b, z)), smt.Le(r, z)))
	ex.assume(smt.Implies(smt.And(smt.Le(a, z), smt.Gt(b, z)), smt.Le(r, z)))
	ex.assume(smt.Implies(smt.Eq(a, b), smt.Eq(r, tE18())))
	ex.assume(smt.Implies(smt.Eq(b, tE18()), smt.Eq(r, a)))
	// a/b <= 1 when 0 <= a <= b
	ex.assume(smt.Implies(smt.And(smt.Ge(a, z), smt.Le(a, b)), smt.Le(r, tE18())))
	ex.assume(smt.Implies(smt.And(smt.Gt(b, z), smt.Ge(a, b)), smt.Ge(r, tE18())))
	return r
}

func pow10(n int64) *big.Int { return new(big.Int).Exp(big.NewInt(10), big.NewInt(n), nil) }

// parseDec parses a decimal literal into its 10^18-scaled integer.
func parseDec(s string) (*big.Int, bool) {
	neg := strings.HasPrefix(s, "-")
	s = strings.TrimPrefix(s, "-")
	parts := strings.SplitN(s, ".", 2)
	ip, ok := new(big.Int).SetString(parts[0], 10)
	if !ok {
		return nil, false
	}
	r := new(big.Int).Mul(ip, e18)
	if len(parts) == 2 {
		f := parts[1]
		if len(f) > 18 {
			return nil, false
		}
		fp, ok := new(big.Int).SetString(f, 10)
		if !ok {
			return nil, false
		}
		r.Add(r, new(big.Int).Mul(fp, pow10(int64(18-len(f)))))
	}
	if neg {
		r.Neg(r)
	}
	return r, true
}

const mathPkg = "cosmossdk.io/math"

func init() {
	t := func(c *Call, i int) *smt.Term { return c.Ex.term(c.Args[i]) }
	I := func(n string) string { return "(" + mathPkg + ".Int)." + n }
	D := func(n string) string { return "(" + mathPkg + ".LegacyDec)." + n }
	F := func(n string) string { return mathPkg + "." + n }

	// ---- Int ----
	reg(func(c *Call) Val { return smt.Add(t(c, 0), t(c, 1)) }, I("Add"), I("AddRaw"))
	reg(func(c *Call) Val { return smt.Sub(t(c, 0), t(c, 1)) }, I("Sub"), I("SubRaw"))
	reg(func(c *Call) Val { return smt.Mul(t(c, 0), t(c, 1)) }, I("Mul"), I("MulRaw"))
	reg(func(c *Call) Val {
		a, b := t(c, 0), t(c, 1)
		if c.Ex.branch(smt.Eq(b, smt.IntC(0))) {
			c.Ex.goPanic("Int.Quo division by zero")
		}
		return smt.TDiv(a, b)
	}, I("Quo"), I("QuoRaw"))
	reg(func(c *Call) Val {
		a, b := t(c, 0), t(c, 1)
		if c.Ex.branch(smt.Eq(b, smt.IntC(0))) {
			c.Ex.goPanic("Int.Mod division by zero")
		}
		return smt.TRem(a, b)
	}, I("Mod"), I("ModRaw"))
	reg(func(c *Call) Val { return smt.Neg(t(c, 0)) }, I("Neg"))
	reg(func(c *Call) Val { return smt.Abs(t(c, 0)) }, I("Abs"))
	reg(func(c *Call) Val { return smt.Eq(t(c, 0), smt.IntC(0)) }, I("IsZero"))
	reg(func(c *Call) Val { return smt.Gt(t(c, 0), smt.IntC(0)) }, I("IsPositive"))
	reg(func(c *Call) Val { return smt.Lt(t(c, 0), smt.IntC(0)) }, I("IsNegative"))
	reg(func(c *Call) Val { return smt.False }, I("IsNil"))
	reg(func(c *Call) Val { return smt.Gt(t(c, 0), t(c, 1)) }, I("GT"))
	reg(func(c *Call) Val { return smt.Ge(t(c, 0), t(c, 1)) }, I("GTE"))
	reg(func(c *Call) Val { return smt.Lt(t(c, 0), t(c, 1)) }, I("LT"))
	reg(func(c *Call) Val { return smt.Le(t(c, 0), t(c, 1)) }, I("LTE"))
	reg(func(c *Call) Val { return smt.Eq(t(c, 0), t(c, 1)) }, I("Equal"))
	reg(func(c *Call) Val { return smt.Mul(tE18(), t(c, 0)) }, I("ToLegacyDec"), F("LegacyNewDecFromInt"), F("LegacyNewDec"))
	reg(func(c *Call) Val { return t(c, 0) }, I("Int64"), I("Uint64"), F("NewInt"), F("NewIntFromUint64"), I("BigInt"), F("NewIntFromBigInt"), I("BigIntMut"), F("NewIntFromBigIntMut"), F("NewUint"), "(" + mathPkg + ".Uint).Uint64")
	reg(func(c *Call) Val { return smt.True }, I("IsInt64"), I("IsUint64"))
	reg(func(c *Call) Val { return smt.App("intstr", smt.Str, t(c, 0)) }, I("String"))
	reg(func(c *Call) Val {
		x := t(c, 0)
		return smt.Ite(smt.Gt(x, smt.IntC(0)), smt.IntC(1), smt.Ite(smt.Lt(x, smt.IntC(0)), smt.IntC(-1), smt.IntC(0)))
	}, I("Sign"))
	reg(func(c *Call) Val { return smt.IntC(0) }, F("ZeroInt"), F("LegacyZeroDec"), F("ZeroUint"))
	reg(func(c *Call) Val { return smt.IntC(1) }, F("OneInt"), F("OneUint"))
	reg(func(c *Call) Val { return smt.Min(t(c, 0), t(c, 1)) }, F("MinInt"), F("LegacyMinDec"))
	reg(func(c *Call) Val { return smt.Max(t(c, 0), t(c, 1)) }, F("MaxInt"), F("LegacyMaxDec"))
	reg(func(c *Call) Val {
		s := t(c, 0)
		if s.IsLit() {
			if bi, ok := new(big.Int).SetString(s.Name, 10); ok {
				return TupleV{smt.IntBig(bi), smt.True}
			}
			return TupleV{smt.IntC(0), smt.False}
		}
		ok := smt.App("intparse!ok", smt.Bool, s)
		return TupleV{smt.App("intparse", smt.Int, s), ok}
	}, F("NewIntFromString"))
	reg(func(c *Call) Val {
		n, d := t(c, 0), t(c, 1)
		if dc, ok := d.ConstInt(); ok {
			return smt.Mul(smt.IntBig(pow10(dc.Int64())), n)
		}
		c.Ex.abort("NewIntWithDecimal with symbolic decimals")
		return nil
	}, F("NewIntWithDecimal"))

	// ---- LegacyDec ----
	reg(func(c *Call) Val { return tE18() }, F("LegacyOneDec"))
	reg(func(c *Call) Val { return smt.IntC(1) }, F("LegacySmallestDec"))
	reg(func(c *Call) Val {
		n, p := t(c, 0), t(c, 1)
		pc, ok := p.ConstInt()
		if !ok || pc.Int64() < 0 || pc.Int64() > 18 {
			c.Ex.abort("LegacyNewDecWithPrec with symbolic precision")
		}
		return smt.Mul(smt.IntBig(pow10(18-pc.Int64())), n)
	}, F("LegacyNewDecWithPrec"), F("LegacyNewDecFromIntWithPrec"))
	reg(func(c *Call) Val {
		s := t(c, 0)
		if s.IsLit() {
			if bi, ok := parseDec(s.Name); ok {
				return smt.IntBig(bi)
			}
			c.Ex.goPanic("LegacyMustNewDecFromStr(%q)", s.Name)
		}
		return smt.App("decparse", smt.Int, s)
	}, F("LegacyMustNewDecFromStr"))
	reg(func(c *Call) Val {
		s := t(c, 0)
		if s.IsLit() {
			if bi, ok := parseDec(s.Name); ok {
				return TupleV{smt.IntBig(bi), c.Ex.nilErr()}
			}
		}
		ok := smt.App("decparse!ok", smt.Bool, s)
		if c.Ex.branch(ok) {
			return TupleV{smt.App("decparse", smt.Int, s), c.Ex.nilErr()}
		}
		return TupleV{smt.IntC(0), smt.Lit(c.Ex.site("err!decparse"), smt.Err)}
	}, F("LegacyNewDecFromStr"))
	reg(func(c *Call) Val { return smt.Add(t(c, 0), t(c, 1)) }, D("Add"))
	reg(func(c *Call) Val { return smt.Sub(t(c, 0), t(c, 1)) }, D("Sub"))
	reg(func(c *Call) Val { return c.Ex.decMulWith(t(c, 0), t(c, 1), rhe, "mul") }, D("Mul"))
	reg(func(c *Call) Val { return c.Ex.decMulWith(t(c, 0), t(c, 1), truncE18, "multrunc") }, D("MulTruncate"))
	reg(func(c *Call) Val { return c.Ex.decMulWith(t(c, 0), t(c, 1), roundUpE18, "mulroundup") }, D("MulRoundUp"))
	reg(func(c *Call) Val { return c.Ex.decQuoWith(t(c, 0), t(c, 1), rhe, "quo") }, D("Quo"))
	reg(func(c *Call) Val { return c.Ex.decQuoWith(t(c, 0), t(c, 1), truncE18, "quotrunc") }, D("QuoTruncate"))
	reg(func(c *Call) Val { return c.Ex.decQuoWith(t(c, 0), t(c, 1), roundUpE18, "quoroundup") }, D("QuoRoundUp"))
	reg(func(c *Call) Val { return smt.Mul(t(c, 0), t(c, 1)) }, D("MulInt"), D("MulInt64"))
	reg(func(c *Call) Val {
		a, b := t(c, 0), t(c, 1)
		if c.Ex.branch(smt.Eq(b, smt.IntC(0))) {
			c.Ex.goPanic("Dec.QuoInt division by zero")
		}
		return smt.TDiv(a, b)
	}, D("QuoInt"), D("QuoInt64"))
	reg(func(c *Call) Val { return smt.Neg(t(c, 0)) }, D("Neg"))
	reg(func(c *Call) Val { return smt.Abs(t(c, 0)) }, D("Abs"))
	reg(func(c *Call) Val { return smt.Eq(t(c, 0), smt.IntC(0)) }, D("IsZero"))
	reg(func(c *Call) Val { return smt.Gt(t(c, 0), smt.IntC(0)) }, D("IsPositive"))
	reg(func(c *Call) Val { return smt.Lt(t(c, 0), smt.IntC(0)) }, D("IsNegative"))
	reg(func(c *Call) Val { return smt.False }, D("IsNil"))
	reg(func(c *Call) Val { return smt.Gt(t(c, 0), t(c, 1)) }, D("GT"))
	reg(func(c *Call) Val { return smt.Ge(t(c, 0), t(c, 1)) }, D("GTE"))
	reg(func(c *Call) Val { return smt.Lt(t(c, 0), t(c, 1)) }, D("LT"))
	reg(func(c *Call) Val { return smt.Le(t(c, 0), t(c, 1)) }, D("LTE"))
	reg(func(c *Call) Val { return smt.Eq(t(c, 0), t(c, 1)) }, D("Equal"))
	reg(func(c *Call) Val { return rhe(t(c, 0)) }, D("RoundInt"), D("RoundInt64"))
	reg(func(c *Call) Val { return truncE18(t(c, 0)) }, D("TruncateInt"), D("TruncateInt64"))
	reg(func(c *Call) Val { return smt.Mul(tE18(), truncE18(t(c, 0))) }, D("TruncateDec"))
	reg(func(c *Call) Val {
		x := t(c, 0)
		d := tE18()
		// Ceil: quo,rem := QuoRem(x, 1e18) (truncated); rem<=0 -> quo ; else quo+1
		q := smt.TDiv(x, d)
		rem := smt.Sub(x, smt.Mul(d, q))
		return smt.Mul(d, smt.Ite(smt.Le(rem, smt.IntC(0)), q, smt.Add(q, smt.IntC(1))))
	}, D("Ceil"))
	reg(func(c *Call) Val { return smt.App("decstr", smt.Str, t(c, 0)) }, D("String"))
	reg(func(c *Call) Val { return smt.App("decfloat", smt.Obj, t(c, 0)) }, D("MustFloat64"))
	reg(func(c *Call) Val { return t(c, 0) }, D("BigInt"), D("Clone"), D("ImmutOp"))
	reg(func(c *Call) Val {
		a, n := t(c, 0), t(c, 1)
		if nc, ok := n.ConstInt(); ok && nc.Int64() >= 0 && nc.Int64() <= 4 {
			r := tE18()
			for i := int64(0); i < nc.Int64(); i++ {
				r = c.Ex.decMulWith(r, a, rhe, "mul")
			}
			return r
		}
		r := smt.App("decpower", smt.Int, a, n)
		c.Ex.assume(smt.Implies(smt.Ge(a, smt.IntC(0)), smt.Ge(r, smt.IntC(0))))
		return r
	}, D("Power"))
	reg(func(c *Call) Val {
		a := t(c, 0)
		r := smt.App("decsqrt", smt.Int, a)
		c.Ex.assume(smt.Implies(smt.Ge(a, smt.IntC(0)), smt.Ge(r, smt.IntC(0))))
		return TupleV{r, c.Ex.nilErr()}
	}, D("ApproxSqrt"))
}
