package sym

import (
	"fmt"
	"go/constant"
	"go/token"
	"go/types"
	"sort"
	"strings"
	"time"

	"govc/smt"

	"golang.org/x/tools/go/ssa"
)

// Config is shared by all paths of one exploration.
type Config struct {
	Prog      *ssa.Program
	Aggs      []*AggDecl
	Contracts map[*ssa.Function]*Contract
	// Modular: callee functions whose contract (not body) is used at call sites.
	Modular map[*ssa.Function]bool
	// Abstract: callee functions replaced by "fresh results, declared havoc" without contract.
	Abstract        map[string]*AbstractSpec
	DefaultBound    int
	Bounds          map[string]int // leaf-name suffix -> bound
	MaxDepth        int
	MaxBlockVis     int
	IfaceContracts  map[string]*Contract // "IfaceName.Method" -> contract
	Resolver        func(iface types.Type, method string) *ssa.Function
	Debug           bool
	IfaceFrame      func(itype types.Type, method string) (effects []string, impls int)
	FuncFrame       func(fn *ssa.Function) []string // inferred may-write set of a function (closures included)
	Deadline        time.Time // wall-clock budget of the function being explored
	FuncBudget      time.Duration
	StrictExternals bool // abort instead of havoc on unmodelled externals
	DecAbstract     bool // two-symbolic-operand Dec products/quotients become uninterpreted with sign/zero/unit facts
	EnvRef          *Env
	// LoopInv: loop-header block invariants of the function under contract (by header index)
	OnUnsupported func(what string)
}

// AbstractSpec describes an un-contracted callee that is not inlined.
type AbstractSpec struct {
	HavocTables []string // table ids (prefix match) to havoc; "*" = everything
	HavocBank   bool
	Pure        bool // result is a function of scalar args (UF)
}

type abortErr struct{ msg string }
type panicOut struct{ msg string }
type infeasible struct{}

// loopStepDone ends a path that served only the step obligation of a callback-loop invariant.
type loopStepDone struct{}

// SupplyEvent is one bank mint or burn performed on the path.
type SupplyEvent struct {
	Kind   string // "mint" | "burn"
	Coins  Val
	Module *smt.Term
	Pos    string
}

// Oblig is one proof obligation produced on one path.
type Oblig struct {
	Cover bool // reachability check: satisfiable (not valid) is the expected answer
	Name  string
	Hyps  []*smt.Term
	Goal  *smt.Term
	Path  string // decision string
	Note  string
}

// Exec is the state of one path.
type Exec struct {
	Cfg           *Config
	dec           []int
	pos           int
	pending       *[][]int
	pc            []*smt.Term
	fresh         int
	worldBase     string
	stack         []*ssa.Function
	Obligs        []*Oblig
	Bounded       map[string]int // materialisation bounds applied on this path
	lenChoice     map[string]int
	globals       map[*ssa.Global]*Cell
	Trace         []string
	siteCount     map[string]int
	inSpec        int // >0 while evaluating a specification expression
	recovering    []*frame
	Calls         []string // log of notable call events on this path (mint/burn/send sites etc.)
	rowInvDone    map[string]bool
	topTags       map[string]bool
	noFork        bool
	rowGuard      *smt.Term
	opaqueSeen    map[string]bool     // lazy collections read opaquely during the current spec evaluation
	opaqueRedo    map[string][]func() // assumptions to re-evaluate when a collection is revealed
	forceMemo     map[*LazyV]Val
	sliceMemo     map[*LazyV]*SliceV
	UsedContracts map[string]bool
	SupplyEvents  []SupplyEvent
	callResults   map[string]tval
	steps         int
	specArith     bool
	revealPrefix  string
	TopFn         *ssa.Function
	TopEv         *evalEnv  // specification environment of the function under verification
	TopCt         *Contract // its contract
	TopKey        string
	Externals     map[string]bool
	TopForalls    []*smt.Term
}

func (ex *Exec) abort(format string, a ...interface{}) {
	panic(abortErr{fmt.Sprintf(format, a...)})
}

func (ex *Exec) goPanic(format string, a ...interface{}) {
	panic(panicOut{fmt.Sprintf(format, a...)})
}

// ForkStats (debugging aid, GOVC_FORKSTATS): new decision points per source position.
var ForkStats map[string]int
var curIns ssa.Instruction

func (ex *Exec) choose(n int) int {
	if n <= 1 {
		return 0
	}
	if ex.pos < len(ex.dec) {
		d := ex.dec[ex.pos]
		ex.pos++
		return d
	}
	if ForkStats != nil && curIns != nil {
		pos := "?"
		if fn := curIns.Parent(); fn != nil {
			pos = fn.Prog.Fset.Position(curIns.Pos()).String() + " in " + fn.Name() + " b" + fmt.Sprint(curIns.Block().Index) + " " + curIns.String()
		}
		ForkStats[pos]++
	}
	prefix := append([]int(nil), ex.dec...)
	for i := 1; i < n; i++ {
		alt := append(append([]int(nil), prefix...), i)
		*ex.pending = append(*ex.pending, alt)
	}
	ex.dec = append(ex.dec, 0)
	ex.pos++
	return 0
}

func (ex *Exec) assume(c *smt.Term) {
	if c.IsTrue() {
		return
	}
	if c.IsFalse() {
		panic(infeasible{})
	}
	// cheap contradiction check against existing literals
	neg := smt.Not(c)
	for _, p := range ex.pc {
		if p == neg {
			panic(infeasible{})
		}
	}
	ex.pc = append(ex.pc, c)
}

// branch forks on a symbolic condition and returns the side taken on this path.
func (ex *Exec) branch(c *smt.Term) bool {
	if c.IsTrue() {
		return true
	}
	if c.IsFalse() {
		return false
	}
	neg := smt.Not(c)
	for _, p := range ex.pc {
		if p == c {
			return true
		}
		if p == neg {
			return false
		}
	}
	if ex.noFork {
		panic(quantSkip{})
	}
	if ex.choose(2) == 0 {
		ex.assume(c)
		return true
	}
	ex.assume(neg)
	return false
}

// quantSkip: a specification evaluated under a bound variable wanted to fork; the quantified
// form of that clause is not generated (its instances still are).
type quantSkip struct{}

func (ex *Exec) freshName(hint string) string {
	ex.fresh++
	return fmt.Sprintf("%s!%d", hint, ex.fresh)
}

// site returns a per-path-stable name for the n-th occurrence of a call site label.
func (ex *Exec) site(label string) string {
	ex.siteCount[label]++
	return fmt.Sprintf("%s#%d", label, ex.siteCount[label])
}

func (ex *Exec) oblige(name string, goal *smt.Term, note string) {
	goal = ex.simplifyUnder(goal)
	if goal.IsTrue() {
		ex.Obligs = append(ex.Obligs, &Oblig{Name: name, Goal: goal, Note: note})
		return
	}
	ex.Obligs = append(ex.Obligs, &Oblig{Name: name, Hyps: append([]*smt.Term(nil), ex.pc...), Goal: goal, Path: ex.pathString(), Note: note})
}

// simplifyUnder rewrites a goal with the literals the path condition asserts (unit facts).
func (ex *Exec) simplifyUnder(goal *smt.Term) *smt.Term {
	if goal.IsTrue() || goal.IsFalse() {
		return goal
	}
	m := map[*smt.Term]*smt.Term{}
	for _, p := range ex.pc {
		switch {
		case p.Op == "not":
			m[p.Args[0]] = smt.False
		case p.Op == "and":
			for _, a := range p.Args {
				if a.Op == "not" {
					m[a.Args[0]] = smt.False
				} else if a.Sort == smt.Bool && a.Op != "forall" {
					m[a] = smt.True
				}
			}
		case p.Op != "forall" && p.Op != "or" && p.Op != "=>" && p.Op != "ite":
			m[p] = smt.True
		}
	}
	if len(m) == 0 {
		return goal
	}
	return smt.Subst(goal, m)
}

func (ex *Exec) pathString() string {
	var sb strings.Builder
	for _, d := range ex.dec[:ex.pos] {
		fmt.Fprintf(&sb, "%d", d)
	}
	return sb.String()
}

// ---- frames ---------------------------------------------------------------------------

type frame struct {
	fn     *ssa.Function
	env    map[ssa.Value]Val
	bind   []Val
	defers []deferred
	visits map[*ssa.BasicBlock]int
	// named results allocation cells are ordinary Allocs
	panicking *panicOut
	recovered bool
}

type deferred struct {
	call *ssa.CallCommon
	args []Val
	fnv  Val
	ins  ssa.Instruction
}

func (ex *Exec) nilErr() *smt.Term { return smt.Lit("nil", smt.Err) }

func (ex *Exec) constVal(c *ssa.Const) Val {
	t := c.Type()
	if c.Value == nil {
		return ex.zero(t)
	}
	if isDuration(t) {
		if i, ok := constant.Int64Val(constant.ToInt(c.Value)); ok {
			return smt.IntC(i)
		}
	}
	switch u := t.Underlying().(type) {
	case *types.Basic:
		switch {
		case u.Info()&types.IsBoolean != 0:
			return smt.BoolC(constant.BoolVal(c.Value))
		case u.Info()&types.IsInteger != 0:
			v := constant.ToInt(c.Value)
			if i, ok := constant.Int64Val(v); ok {
				return smt.IntC(i)
			}
			bi, _ := newBig(v.ExactString())
			return smt.IntBig(bi)
		case u.Info()&types.IsString != 0:
			return smt.StrC(constant.StringVal(c.Value))
		case u.Info()&types.IsFloat != 0:
			return smt.Lit("float:"+c.Value.ExactString(), smt.Obj)
		}
	}
	ex.abort("const of type %s", t)
	return nil
}

// zero is the Go zero value of t.
func (ex *Exec) zero(t types.Type) Val {
	t = types.Unalias(t)
	if isSdkCtx(t) {
		return &CtxV{W: NewWorld(ex.freshName("zeroctx"))}
	}
	if isTime(t) {
		return &TimeV{Unix: smt.IntC(0)}
	}
	if s, ok := scalarSort(t); ok {
		switch s {
		case smt.Int:
			return smt.IntC(0)
		case smt.Bool:
			return smt.False
		case smt.Str:
			return smt.StrC("")
		case smt.Err:
			return ex.nilErr()
		case smt.Addr:
			return smt.Lit("nil", smt.Addr)
		default:
			return smt.Lit("zero", s)
		}
	}
	if isByteSlice(t) {
		return &BytesV{Nil: true}
	}
	switch u := t.Underlying().(type) {
	case *types.Struct:
		s := &StructV{T: t, F: make([]Val, u.NumFields())}
		for i := 0; i < u.NumFields(); i++ {
			s.F[i] = ex.zero(u.Field(i).Type())
		}
		return s
	case *types.Pointer:
		return &PtrV{T: u.Elem()}
	case *types.Slice:
		return &SliceV{T: t}
	case *types.Interface, *types.Signature, *types.Map, *types.Chan:
		return &NilV{T: t}
	case *types.Array:
		arr := &ArrV{ElemT: u.Elem()}
		for i := int64(0); i < u.Len(); i++ {
			arr.Elems = append(arr.Elems, &Cell{V: ex.zero(u.Elem()), T: u.Elem()})
		}
		return &SliceV{Arr: arr, Len: int(u.Len()), Cap: int(u.Len()), T: t}
	case *types.Tuple:
		tv := make(TupleV, u.Len())
		for i := range tv {
			tv[i] = ex.zero(u.At(i).Type())
		}
		return tv
	}
	ex.abort("zero value of %s", t)
	return nil
}

// symbolic creates a fresh symbolic value of type t (lazy below the top level).
func (ex *Exec) symbolic(t types.Type, nm Namer) Val {
	return ex.force(&LazyV{T: t, Nm: nm})
}

// force expands a lazy value one level (slices stay lazy until an operation needs them).
func (ex *Exec) force(v Val) Val {
	lz, ok := v.(*LazyV)
	if !ok {
		return v
	}
	// the expansion of one lazy value is memoised by identity: copies of a struct share the
	// expansion (hence the backing arrays of nested slices), separately decoded rows do not
	if r, ok := ex.forceMemo[lz]; ok {
		if s, ok := r.(*StructV); ok {
			return s.Copy()
		}
		return r
	}
	r := ex.force1(lz)
	if _, still := r.(*LazyV); !still {
		ex.forceMemo[lz] = r
		if s, ok := r.(*StructV); ok {
			return s.Copy()
		}
	}
	return r
}

func (ex *Exec) force1(lz *LazyV) Val {
	t := types.Unalias(lz.T)
	nm := lz.Nm
	if isSdkCtx(t) {
		ex.abort("symbolic context value %s", nm.Prefix)
	}
	if isTime(t) {
		return &TimeV{Unix: nm.Sub("unix").Leaf(smt.Int)}
	}
	if isCoins(t) || isDecCoins(t) {
		n := nm
		return &CoinsV{Sym: &n}
	}
	if s, ok := scalarSort(t); ok {
		leaf := nm.Leaf(s)
		if isUnsigned(t) {
			ex.assume(smt.Ge(leaf, smt.IntC(0)))
		}
		if s == smt.Err {
			return leaf
		}
		return leaf
	}
	if isByteSlice(t) {
		return &BytesV{Tag: "sym", Args: []*smt.Term{nm.Leaf(smt.Key)}}
	}
	switch u := t.Underlying().(type) {
	case *types.Struct:
		s := &StructV{T: t, F: make([]Val, u.NumFields())}
		for i := 0; i < u.NumFields(); i++ {
			s.F[i] = &LazyV{T: u.Field(i).Type(), Nm: nm.Sub(u.Field(i).Name())}
		}
		return s
	case *types.Pointer:
		c := &Cell{V: &LazyV{T: u.Elem(), Nm: nm.Sub("*")}, T: u.Elem(), Name: nm.Prefix}
		return &PtrV{C: c, T: u.Elem()}
	case *types.Slice:
		return lz // stays lazy
	case *types.Interface, *types.Signature, *types.Map, *types.Chan:
		return &OpaqueV{T: t, Tag: nm.Prefix}
	case *types.Array:
		arr := &ArrV{ElemT: u.Elem()}
		for i := int64(0); i < u.Len(); i++ {
			arr.Elems = append(arr.Elems, &Cell{V: &LazyV{T: u.Elem(), Nm: nm.Sub(fmt.Sprintf("[%d]", i))}, T: u.Elem()})
		}
		return &SliceV{Arr: arr, Len: int(u.Len()), Cap: int(u.Len()), T: t}
	}
	ex.abort("symbolic value of type %s", t)
	return nil
}

func (ex *Exec) boundFor(name string) int {
	best := -1
	bestLen := -1
	for suf, b := range ex.Cfg.Bounds {
		if strings.HasSuffix(name, suf) && len(suf) > bestLen {
			best, bestLen = b, len(suf)
		}
	}
	if best >= 0 {
		return best
	}
	return ex.Cfg.DefaultBound
}

// revealed: some copy of this symbolic collection has been materialised on this path.
func (ex *Exec) revealed(lz *LazyV) bool {
	if _, ok := ex.sliceMemo[lz]; ok {
		return true
	}
	// collections returned by the call whose postconditions are being assumed are looked
	// into at once (later reads of the world would not be the state the postcondition meant)
	if ex.revealPrefix != "" && strings.HasPrefix(lz.Nm.Prefix, ex.revealPrefix) {
		return true
	}
	key := lz.Nm.Sub("len").Leaf(smt.Int).String()
	_, ok := ex.lenChoice[key]
	if !ok && ex.opaqueSeen != nil {
		ex.opaqueSeen[key] = true
	}
	return ok
}

// assumeSpec assumes the value of a specification evaluation and arranges for it to be
// re-evaluated (and assumed again) when a collection it read opaquely is later revealed.
func (ex *Exec) assumeSpec(eval func() *smt.Term) {
	saved := ex.opaqueSeen
	ex.opaqueSeen = map[string]bool{}
	t := eval()
	seen := ex.opaqueSeen
	ex.opaqueSeen = saved
	ex.assume(t)
	for k := range seen {
		if saved != nil {
			saved[k] = true
		}
		ex.opaqueRedo[k] = append(ex.opaqueRedo[k], func() { ex.assumeSpec(eval) })
	}
}

// forceSlice materialises a lazy slice with a bounded, forked length.
func (ex *Exec) forceSlice(v Val) *SliceV {
	switch s := v.(type) {
	case *SliceV:
		return s
	case *CoinsV:
		return ex.coinsToSlice(s)
	case *LazyV:
		if r, ok := ex.sliceMemo[s]; ok {
			return r
		}
		key := s.Nm.Sub("len").Leaf(smt.Int).String()
		_, already := ex.lenChoice[key]
		r := ex.forceSlice1(s)
		ex.sliceMemo[s] = r
		if !already {
			// first reveal of this collection: assumptions that read it opaquely are
			// re-evaluated so that they now speak about its elements
			redo := ex.opaqueRedo[key]
			delete(ex.opaqueRedo, key)
			for _, f := range redo {
				f()
			}
		}
		return r
	case *NilV:
		return &SliceV{T: s.T}
	}
	ex.abort("forceSlice on %T", v)
	return nil
}

func (ex *Exec) forceSlice1(s *LazyV) *SliceV {
	{
		st, ok := s.T.Underlying().(*types.Slice)
		if !ok {
			ex.abort("forceSlice on %s", s.T)
		}
		if isCoins(s.T) {
			n := s.Nm
			return ex.coinsToSlice(&CoinsV{Sym: &n})
		}
		nm := s.Nm
		lenLeaf := nm.Sub("len").Leaf(smt.Int)
		key := lenLeaf.String()
		n, ok := ex.lenChoice[key]
		if !ok {
			k := ex.boundFor(nm.Prefix)
			n = ex.choose(k + 1)
			ex.lenChoice[key] = n
			ex.assume(smt.Eq(lenLeaf, smt.IntC(int64(n))))
			ex.Bounded[nm.Prefix] = k
		}
		arr := &ArrV{ElemT: st.Elem()}
		for i := 0; i < n; i++ {
			el := ex.force(&LazyV{T: st.Elem(), Nm: nm.Sub(fmt.Sprintf("[%d]", i))})
			arr.Elems = append(arr.Elems, &Cell{V: el, T: st.Elem(), Name: fmt.Sprintf("%s[%d]", nm.Prefix, i)})
		}
		return &SliceV{Arr: arr, Len: n, Cap: n, T: s.T}
	}
}

// coinsToSlice gives an abstract coin collection a concrete (bounded) slice view: valid
// coins, i.e. strictly sorted distinct denoms with positive amounts.
func (ex *Exec) coinsToSlice(c *CoinsV) *SliceV {
	coinT := ex.coinType()
	if c.Sym == nil || len(c.Plus) > 0 || len(c.Minus) > 0 {
		ds, finite := ex.support(c)
		if !finite {
			ex.abort("iteration over a coin collection mixing symbolic and concrete parts")
		}
		// the SDK result is sorted and has no zero entries; the order of the denoms is not
		// modelled, so iterate in support order over the entries whose amount is non-zero.
		arr := &ArrV{ElemT: coinT}
		// distinct denoms only: fork on equalities between support denoms
		var uniq []*smt.Term
		for _, d := range ds {
			dup := false
			for _, u := range uniq {
				if ex.branch(smt.Eq(d, u)) {
					dup = true
					break
				}
			}
			if !dup {
				uniq = append(uniq, d)
			}
		}
		for _, d := range uniq {
			a := ex.amtOf(c, d)
			if ex.branch(smt.Eq(a, smt.IntC(0))) {
				continue
			}
			arr.Elems = append(arr.Elems, &Cell{V: &StructV{T: coinT, F: []Val{d, a}}, T: coinT})
		}
		return &SliceV{Arr: arr, Len: len(arr.Elems), Cap: len(arr.Elems), T: ex.coinsType()}
	}
	nm := *c.Sym
	lenLeaf := nm.Sub("len").Leaf(smt.Int)
	key := lenLeaf.String()
	n, ok := ex.lenChoice[key]
	if !ok {
		k := ex.boundFor(nm.Prefix)
		n = ex.choose(k + 1)
		ex.lenChoice[key] = n
		ex.assume(smt.Eq(lenLeaf, smt.IntC(int64(n))))
		ex.Bounded[nm.Prefix] = k
	}
	arr := &ArrV{ElemT: coinT}
	var ds, as []*smt.Term
	for i := 0; i < n; i++ {
		d := nm.Sub(fmt.Sprintf("[%d].Denom", i)).Leaf(smt.Str)
		a := nm.Sub(fmt.Sprintf("[%d].Amount", i)).Leaf(smt.Int)
		ds, as = append(ds, d), append(as, a)
		ex.assume(smt.Gt(a, smt.IntC(0)))
		for j := 0; j < i; j++ {
			ex.assume(smt.Ne(ds[j], d))
		}
		arr.Elems = append(arr.Elems, &Cell{V: &StructV{T: coinT, F: []Val{d, a}}, T: coinT})
	}
	// bridge: amount function = sum of entries
	ex.fresh++
	bv := smt.Var(fmt.Sprintf("d!%d", ex.fresh), smt.Str)
	sum := smt.IntC(0)
	for i := range ds {
		sum = smt.Add(sum, smt.Ite(smt.Eq(bv, ds[i]), as[i], smt.IntC(0)))
	}
	ex.assume(smt.Forall([]*smt.Term{bv}, smt.Eq(ex.amtOf(c, bv), sum)))
	return &SliceV{Arr: arr, Len: n, Cap: n, T: ex.coinsType()}
}

var coinT, coinsT types.Type

func (ex *Exec) coinType() types.Type {
	if coinT == nil {
		ex.findSdkTypes()
	}
	return coinT
}
func (ex *Exec) coinsType() types.Type {
	if coinsT == nil {
		ex.findSdkTypes()
	}
	return coinsT
}
func (ex *Exec) findSdkTypes() {
	for _, p := range ex.Cfg.Prog.AllPackages() {
		if p.Pkg.Path() == "github.com/cosmos/cosmos-sdk/types" {
			coinT = p.Pkg.Scope().Lookup("Coin").Type()
			coinsT = p.Pkg.Scope().Lookup("Coins").Type()
		}
	}
	if coinT == nil {
		ex.abort("sdk types not loaded")
	}
}

// forceFields returns the fields of a struct with the scalar / struct fields expanded.
func (ex *Exec) forceFields(s *StructV) []Val {
	for i, f := range s.F {
		if _, ok := f.(*LazyV); ok {
			s.F[i] = ex.force(f)
		}
	}
	return s.F
}

func (ex *Exec) field(s *StructV, i int) Val {
	if _, ok := s.F[i].(*LazyV); ok {
		s.F[i] = ex.force(s.F[i])
	}
	return s.F[i]
}

// ---- memory -------------------------------------------------------------------------

func (ex *Exec) load(p *PtrV) Val {
	if p.C == nil {
		ex.goPanic("nil pointer dereference")
	}
	p.C.V = ex.force(p.C.V)
	v := p.C.V
	for _, i := range p.Path {
		s, ok := v.(*StructV)
		if !ok {
			ex.abort("load: path through non-struct %T", v)
		}
		v = ex.field(s, i)
	}
	return copyVal(v)
}

// copyVal gives value semantics to struct loads/stores (slices and pointers share).
func copyVal(v Val) Val {
	if s, ok := v.(*StructV); ok {
		c := s.Copy()
		for i, f := range c.F {
			if _, ok := f.(*StructV); ok {
				c.F[i] = copyVal(f)
			}
		}
		return c
	}
	return v
}

func (ex *Exec) store(p *PtrV, v Val) {
	if p.C == nil {
		ex.goPanic("nil pointer dereference (store)")
	}
	v = copyVal(v)
	if len(p.Path) == 0 {
		p.C.V = v
		return
	}
	p.C.V = ex.force(p.C.V)
	root, ok := p.C.V.(*StructV)
	if !ok {
		ex.abort("store: path through non-struct %T", p.C.V)
	}
	cur := root
	for k, i := range p.Path {
		if k == len(p.Path)-1 {
			cur.F[i] = v
			return
		}
		next, ok := ex.field(cur, i).(*StructV)
		if !ok {
			ex.abort("store: path through non-struct field")
		}
		cur = next
	}
}

func (ex *Exec) globalCell(g *ssa.Global) *Cell {
	if c, ok := ex.globals[g]; ok {
		return c
	}
	t := g.Type().(*types.Pointer).Elem()
	name := "glob!" + g.Pkg.Pkg.Path() + "." + g.Name()
	var v Val
	switch {
	case isErrorType(t):
		v = smt.Lit(g.Pkg.Pkg.Name()+"."+g.Name(), smt.Err)
	case isByteSlice(t):
		v = &BytesV{Tag: g.Pkg.Pkg.Name() + "." + g.Name()}
	default:
		if ptr, ok := t.Underlying().(*types.Pointer); ok && isNamed(ptr.Elem(), "cosmossdk.io/errors", "Error") {
			v = smt.Lit(g.Pkg.Pkg.Name()+"."+g.Name(), smt.Err)
		} else {
			v = &LazyV{T: t, Nm: Namer{Prefix: name}}
		}
	}
	c := &Cell{V: v, T: t, Name: name}
	ex.globals[g] = c
	return c
}

// ---- evaluation -----------------------------------------------------------------------

func (ex *Exec) get(fr *frame, v ssa.Value) Val {
	switch v := v.(type) {
	case *ssa.Const:
		return ex.constVal(v)
	case *ssa.Function:
		return &ClosureV{Fn: v}
	case *ssa.Global:
		c := ex.globalCell(v)
		return &PtrV{C: c, T: c.T}
	case *ssa.Builtin:
		return v
	case *ssa.FreeVar:
		for i, fv := range fr.fn.FreeVars {
			if fv == v {
				return fr.bind[i]
			}
		}
	}
	r, ok := fr.env[v]
	if !ok {
		ex.abort("unbound SSA value %s in %s", v.Name(), fr.fn)
	}
	return r
}

func (ex *Exec) term(v Val) *smt.Term {
	v = ex.force(v)
	t, ok := v.(*smt.Term)
	if !ok {
		ex.abort("expected scalar, got %T (%s)", v, describe(v))
	}
	return t
}

// Run executes fn with the given arguments and returns its result (nil, a Val, or TupleV).
func (ex *Exec) Run(fn *ssa.Function, args []Val, bind []Val) Val {
	if len(fn.Blocks) == 0 {
		ex.abort("no body for %s", fn)
	}
	if len(ex.stack) > ex.Cfg.MaxDepth {
		ex.abort("inline depth exceeded at %s", fn)
	}
	for _, f := range ex.stack {
		if f == fn {
			ex.abort("recursion through %s", fn)
		}
	}
	ex.stack = append(ex.stack, fn)
	defer func() { ex.stack = ex.stack[:len(ex.stack)-1] }()
	fr := &frame{fn: fn, env: map[ssa.Value]Val{}, bind: bind, visits: map[*ssa.BasicBlock]int{}}
	for i, p := range fn.Params {
		if i < len(args) {
			fr.env[p] = args[i]
		} else {
			ex.abort("missing argument %d for %s", i, fn)
		}
	}
	return ex.runBlocks(fr)
}

func (ex *Exec) runBlocks(fr *frame) (result Val) {
	fn := fr.fn
	block := fn.Blocks[0]
	var prev *ssa.BasicBlock
	// Go panics inside a function with deferred recover() handlers transfer to the handler.
	defer func() {
		if r := recover(); r != nil {
			po, isPanic := r.(panicOut)
			if !isPanic || len(fr.defers) == 0 || fn.Recover == nil {
				panic(r)
			}
			// run deferred calls with the panic pending; if one of them calls recover(),
			// continue at the function's Recover block.
			fr.panicking = &po
			ex.runDefers(fr)
			if !fr.recovered {
				panic(r)
			}
			fr.panicking = nil
			result = ex.runFrom(fr, fn.Recover, nil)
		}
	}()
	return ex.runFrom(fr, block, prev)
}

func (ex *Exec) runFrom(fr *frame, block, prev *ssa.BasicBlock) Val {
	for {
		fr.visits[block]++
		ex.steps++
		if ex.steps&1023 == 0 && !ex.Cfg.Deadline.IsZero() && time.Now().After(ex.Cfg.Deadline) {
			ex.abort("time budget of this function exhausted")
		}
		if fr.visits[block] > ex.Cfg.MaxBlockVis {
			ex.abort("loop bound exceeded in %s block %d", fr.fn, block.Index)
		}
		var next *ssa.BasicBlock
		for _, ins := range block.Instrs {
			if ForkStats != nil {
				curIns = ins
			}
			switch ins := ins.(type) {
			case *ssa.Phi:
				idx := -1
				for i, p := range block.Preds {
					if p == prev {
						idx = i
					}
				}
				if idx < 0 {
					ex.abort("phi without predecessor")
				}
				fr.env[ins] = ex.get(fr, ins.Edges[idx])
			case *ssa.If:
				c := ex.term(ex.get(fr, ins.Cond))
				if ex.branch(c) {
					next = block.Succs[0]
				} else {
					next = block.Succs[1]
				}
			case *ssa.Jump:
				next = block.Succs[0]
			case *ssa.Return:
				switch len(ins.Results) {
				case 0:
					return nil
				case 1:
					return ex.get(fr, ins.Results[0])
				default:
					tv := make(TupleV, len(ins.Results))
					for i, r := range ins.Results {
						tv[i] = ex.get(fr, r)
					}
					return tv
				}
			case *ssa.Panic:
				ex.goPanic("panic at %s", ex.Cfg.Prog.Fset.Position(ins.Pos()))
			case *ssa.RunDefers:
				ex.runDefers(fr)
			case *ssa.Defer:
				d := deferred{call: &ins.Call, ins: ins}
				if !ins.Call.IsInvoke() {
					d.fnv = ex.get(fr, ins.Call.Value)
				} else {
					d.fnv = ex.get(fr, ins.Call.Value)
				}
				for _, a := range ins.Call.Args {
					d.args = append(d.args, ex.get(fr, a))
				}
				fr.defers = append(fr.defers, d)
			case *ssa.Store:
				p, ok := ex.get(fr, ins.Addr).(*PtrV)
				if !ok {
					ex.abort("store through %T", ex.get(fr, ins.Addr))
				}
				ex.store(p, ex.get(fr, ins.Val))
			case *ssa.MapUpdate:
				ex.mapUpdate(ex.get(fr, ins.Map), ex.get(fr, ins.Key), ex.get(fr, ins.Value))
			case *ssa.Go, *ssa.Send:
				ex.abort("unsupported instruction %T", ins)
			case *ssa.DebugRef:
			case ssa.Value:
				fr.env[ins] = ex.evalValue(fr, ins)
			default:
				ex.abort("unsupported instruction %T", ins)
			}
		}
		if next == nil {
			ex.abort("block without terminator in %s", fr.fn)
		}
		prev, block = block, next
	}
}

func (ex *Exec) runDefers(fr *frame) {
	for len(fr.defers) > 0 {
		d := fr.defers[len(fr.defers)-1]
		fr.defers = fr.defers[:len(fr.defers)-1]
		ex.recovering = append(ex.recovering, fr)
		ex.doCall(fr, d.call, d.fnv, d.args, d.ins)
		ex.recovering = ex.recovering[:len(ex.recovering)-1]
	}
}

func (ex *Exec) evalValue(fr *frame, ins ssa.Value) Val {
	switch ins := ins.(type) {
	case *ssa.Alloc:
		t := ins.Type().(*types.Pointer).Elem()
		c := &Cell{V: ex.zero(t), T: t, Name: fr.fn.Name() + "." + ins.Name()}
		return &PtrV{C: c, T: t}
	case *ssa.BinOp:
		return ex.binop(ins.Op, ex.get(fr, ins.X), ex.get(fr, ins.Y), ins.X.Type())
	case *ssa.UnOp:
		x := ex.get(fr, ins.X)
		switch ins.Op {
		case token.MUL:
			p, ok := x.(*PtrV)
			if !ok {
				ex.abort("deref of %T", x)
			}
			return ex.load(p)
		case token.NOT:
			return smt.Not(ex.term(x))
		case token.SUB:
			return smt.Neg(ex.term(x))
		}
		ex.abort("unsupported unary op %s", ins.Op)
	case *ssa.Call:
		var fnv Val
		fnv = ex.get(fr, ins.Call.Value)
		args := make([]Val, len(ins.Call.Args))
		for i, a := range ins.Call.Args {
			args[i] = ex.get(fr, a)
		}
		return ex.doCall(fr, &ins.Call, fnv, args, ins)
	case *ssa.ChangeType:
		return ex.retype(ex.get(fr, ins.X), ins.Type())
	case *ssa.Convert:
		return ex.convert(ex.get(fr, ins.X), ins.X.Type(), ins.Type())
	case *ssa.ChangeInterface:
		return ex.get(fr, ins.X)
	case *ssa.MakeInterface:
		x := ex.get(fr, ins.X)
		if isErrorType(ins.Type()) {
			if t, ok := x.(*smt.Term); ok && t.Sort == smt.Err {
				return t
			}
			// a concrete error implementation (e.g. *errors.Error global): identify by source
			if p, ok := x.(*PtrV); ok && p.C != nil {
				return smt.Lit("errobj:"+p.C.Name, smt.Err)
			}
			return smt.Lit(ex.freshName("errobj"), smt.Err)
		}
		if t, ok := x.(*smt.Term); ok && t.Sort == smt.Err {
			return t
		}
		if c, ok := x.(*CtxV); ok {
			return c
		}
		return &IfaceV{Dyn: ins.X.Type(), V: x}
	case *ssa.Extract:
		tv, ok := ex.get(fr, ins.Tuple).(TupleV)
		if !ok {
			ex.abort("extract from non-tuple")
		}
		return tv[ins.Index]
	case *ssa.Field:
		x := ex.force(ex.get(fr, ins.X))
		s, ok := x.(*StructV)
		if !ok {
			ex.abort("field of %T (%s)", x, ins.X.Type())
		}
		return copyVal(ex.field(s, ins.Field))
	case *ssa.FieldAddr:
		p, ok := ex.get(fr, ins.X).(*PtrV)
		if !ok {
			ex.abort("fieldaddr of %T", ex.get(fr, ins.X))
		}
		if p.C == nil {
			ex.goPanic("nil pointer dereference (field)")
		}
		st := p.T.Underlying().(*types.Struct)
		path := append(append([]int(nil), p.Path...), ins.Field)
		return &PtrV{C: p.C, Path: path, T: st.Field(ins.Field).Type()}
	case *ssa.IndexAddr:
		x := ex.get(fr, ins.X)
		var sl *SliceV
		if p, ok := x.(*PtrV); ok { // pointer to array
			sl = ex.forceSlice(ex.load(p))
		} else {
			if b, ok := x.(*BytesV); ok {
				_ = b
				ex.abort("indexing into bytes")
			}
			sl = ex.forceSlice(x)
		}
		i := ex.indexOf(sl, ex.term(ex.get(fr, ins.Index)))
		c := sl.Arr.Elems[sl.Off+i]
		return &PtrV{C: c, T: c.T}
	case *ssa.Index:
		x := ex.get(fr, ins.X)
		if t, ok := x.(*smt.Term); ok && t.Sort == smt.Str {
			ex.abort("string indexing")
		}
		sl := ex.forceSlice(x)
		i := ex.indexOf(sl, ex.term(ex.get(fr, ins.Index)))
		return copyVal(ex.force(sl.Arr.Elems[sl.Off+i].V))
	case *ssa.Slice:
		return ex.sliceOp(fr, ins)
	case *ssa.MakeSlice:
		n, ok1 := ex.term(ex.get(fr, ins.Len)).ConstInt()
		c, ok2 := ex.term(ex.get(fr, ins.Cap)).ConstInt()
		if !ok1 || !ok2 {
			ex.abort("make slice with symbolic size")
		}
		if isByteSlice(ins.Type()) {
			return &BytesV{Tag: ex.freshName("makebytes")}
		}
		et := ins.Type().Underlying().(*types.Slice).Elem()
		arr := &ArrV{ElemT: et}
		for i := int64(0); i < c.Int64(); i++ {
			arr.Elems = append(arr.Elems, &Cell{V: ex.zero(et), T: et})
		}
		return &SliceV{Arr: arr, Len: int(n.Int64()), Cap: int(c.Int64()), T: ins.Type()}
	case *ssa.MakeClosure:
		b := make([]Val, len(ins.Bindings))
		for i, x := range ins.Bindings {
			b[i] = ex.get(fr, x)
		}
		return &ClosureV{Fn: ins.Fn.(*ssa.Function), Bind: b}
	case *ssa.MakeMap:
		return &MapV{T: ins.Type()}
	case *ssa.Lookup:
		return ex.lookup(ex.get(fr, ins.X), ex.get(fr, ins.Index), ins)
	case *ssa.Range:
		return ex.rangeStart(ex.get(fr, ins.X))
	case *ssa.Next:
		return ex.rangeNext(ex.get(fr, ins.Iter), ins)
	case *ssa.TypeAssert:
		return ex.typeAssert(ex.get(fr, ins.X), ins)
	case *ssa.Phi:
		panic("phi handled in block loop")
	}
	ex.abort("unsupported SSA value %T in %s", ins, fr.fn)
	return nil
}

func (ex *Exec) indexOf(sl *SliceV, idx *smt.Term) int {
	if c, ok := idx.ConstInt(); ok {
		i := int(c.Int64())
		if i < 0 || i >= sl.Len {
			ex.goPanic("index out of range")
		}
		return i
	}
	// symbolic index: fork over positions
	for i := 0; i < sl.Len; i++ {
		if ex.branch(smt.Eq(idx, smt.IntC(int64(i)))) {
			return i
		}
	}
	ex.goPanic("index out of range (symbolic)")
	return 0
}

func (ex *Exec) sliceOp(fr *frame, ins *ssa.Slice) Val {
	x := ex.get(fr, ins.X)
	if t, ok := x.(*smt.Term); ok && t.Sort == smt.Str {
		lo, hi := "", ""
		if ins.Low != nil {
			lo = ex.term(ex.get(fr, ins.Low)).String()
		}
		if ins.High != nil {
			hi = ex.term(ex.get(fr, ins.High)).String()
		}
		return smt.App("substr["+lo+":"+hi+"]", smt.Str, t)
	}
	if b, ok := x.(*BytesV); ok {
		lo, hi := "", ""
		var args []*smt.Term
		if ins.Low != nil {
			t := ex.term(ex.get(fr, ins.Low))
			lo = t.String()
		}
		if ins.High != nil {
			t := ex.term(ex.get(fr, ins.High))
			hi = t.String()
		}
		if lo == "" && hi == "" || (lo == "0" && hi == "") {
			return b
		}
		args = append(args, b.Args...)
		return &BytesV{Tag: b.Tag + "[" + lo + ":" + hi + "]", Args: args}
	}
	var sl *SliceV
	if p, ok := x.(*PtrV); ok {
		sl = ex.forceSlice(ex.load(p))
		// slicing a byte array (make([]byte, n), []byte{...}): a fresh byte-string value
		if isByteSlice(ins.Type()) && ins.Low == nil {
			whole := ins.High == nil
			if !whole {
				if c, ok := ex.term(ex.get(fr, ins.High)).ConstInt(); ok && int(c.Int64()) == sl.Len {
					whole = true
				}
			}
			if whole {
				return ex.asBytes(sl)
			}
		}
	} else {
		sl = ex.forceSlice(x)
	}
	lo, hi := 0, sl.Len
	if ins.Low != nil {
		c, ok := ex.term(ex.get(fr, ins.Low)).ConstInt()
		if !ok {
			// symbolic bound: fork
			t := ex.term(ex.get(fr, ins.Low))
			found := false
			for i := 0; i <= sl.Cap; i++ {
				if ex.branch(smt.Eq(t, smt.IntC(int64(i)))) {
					lo, found = i, true
					break
				}
			}
			if !found {
				ex.goPanic("slice bounds out of range")
			}
		} else {
			lo = int(c.Int64())
		}
	}
	if ins.High != nil {
		c, ok := ex.term(ex.get(fr, ins.High)).ConstInt()
		if !ok {
			t := ex.term(ex.get(fr, ins.High))
			found := false
			for i := 0; i <= sl.Cap; i++ {
				if ex.branch(smt.Eq(t, smt.IntC(int64(i)))) {
					hi, found = i, true
					break
				}
			}
			if !found {
				ex.goPanic("slice bounds out of range")
			}
		} else {
			hi = int(c.Int64())
		}
	}
	if lo < 0 || hi > sl.Cap || lo > hi {
		ex.goPanic("slice bounds out of range")
	}
	if sl.Arr == nil {
		return &SliceV{T: sl.T}
	}
	return &SliceV{Arr: sl.Arr, Off: sl.Off + lo, Len: hi - lo, Cap: sl.Cap - lo, T: ins.Type()}
}

func (ex *Exec) retype(v Val, t types.Type) Val {
	if b, ok := v.(*BytesV); ok && isAccAddr(t) {
		if b.Tag == "addr" && len(b.Args) == 1 {
			return b.Args[0]
		}
		if strings.HasPrefix(b.Tag, "lit:") {
			return smt.Lit("addrbytes:"+b.Tag, smt.Addr)
		}
		return smt.App("addr!"+b.Tag, smt.Addr, b.Args...)
	}
	if t2, ok := v.(*smt.Term); ok && t2.Sort == smt.Addr && isByteSlice(t) && !isAccAddr(t) {
		return &BytesV{Tag: "addr", Args: []*smt.Term{t2}}
	}
	switch x := v.(type) {
	case *SliceV:
		c := *x
		c.T = t
		return &c
	case *StructV:
		c := x.Copy()
		c.T = t
		return c
	case *LazyV:
		return &LazyV{T: t, Nm: x.Nm}
	case *CoinsV:
		return x
	}
	return v
}

func (ex *Exec) convert(v Val, from, to types.Type) Val {
	v = ex.force(v)
	if t, ok := v.(*smt.Term); ok {
		fs, _ := scalarSort(from)
		ts, ok2 := scalarSort(to)
		if ok2 && fs == ts {
			return t
		}
		if fs == smt.Str && isByteSlice(to) {
			return &BytesV{Tag: "str", Args: []*smt.Term{t}}
		}
		if fs == smt.Int && ts == smt.Obj { // int -> float
			return smt.App("tofloat", smt.Obj, t)
		}
		if fs == smt.Obj && ts == smt.Int {
			return smt.App("fromfloat", smt.Int, t)
		}
		if fs == smt.Int && ts == smt.Str {
			return smt.App("runestr", smt.Str, t)
		}
		if fs == smt.Addr && isByteSlice(to) {
			return &BytesV{Tag: "addr", Args: []*smt.Term{t}}
		}
	}
	if b, ok := v.(*BytesV); ok {
		if s, ok := scalarSort(to); ok && s == smt.Str {
			if b.Tag == "str" && len(b.Args) == 1 {
				return b.Args[0]
			}
			return smt.App("str!"+b.Tag, smt.Str, b.Args...)
		}
		if s, ok := scalarSort(to); ok && s == smt.Addr {
			if b.Tag == "addr" && len(b.Args) == 1 {
				return b.Args[0]
			}
			return smt.App("addr!"+b.Tag, smt.Addr, b.Args...)
		}
		if isByteSlice(to) {
			return b
		}
	}
	if s, ok := v.(*SliceV); ok {
		return ex.retype(s, to)
	}
	ex.abort("unsupported conversion %s -> %s (%T)", from, to, v)
	return nil
}

func (ex *Exec) binop(op token.Token, x, y Val, xt types.Type) Val {
	x, y = ex.force(x), ex.force(y)
	switch op {
	case token.EQL, token.NEQ:
		e := ex.equal(x, y)
		if op == token.NEQ {
			return smt.Not(e)
		}
		return e
	}
	a, ok1 := x.(*smt.Term)
	b, ok2 := y.(*smt.Term)
	if !ok1 || !ok2 {
		ex.abort("binop %s on %T, %T", op, x, y)
	}
	if a.Sort == smt.Str {
		switch op {
		case token.ADD:
			return strConcat(a, b)
		case token.LSS:
			return smt.App("strlt", smt.Bool, a, b)
		case token.GTR:
			return smt.App("strlt", smt.Bool, b, a)
		case token.LEQ:
			return smt.Not(smt.App("strlt", smt.Bool, b, a))
		case token.GEQ:
			return smt.Not(smt.App("strlt", smt.Bool, a, b))
		}
	}
	if a.Sort == smt.Obj { // floats
		return smt.App("fop"+op.String(), func() smt.Sort {
			switch op {
			case token.LSS, token.GTR, token.LEQ, token.GEQ:
				return smt.Bool
			}
			return smt.Obj
		}(), a, b)
	}
	switch op {
	case token.ADD:
		return smt.Add(a, b)
	case token.SUB:
		return smt.Sub(a, b)
	case token.MUL:
		return smt.Mul(a, b)
	case token.QUO:
		if ex.branch(smt.Eq(b, smt.IntC(0))) {
			ex.goPanic("integer divide by zero")
		}
		return smt.TDiv(a, b)
	case token.REM:
		if ex.branch(smt.Eq(b, smt.IntC(0))) {
			ex.goPanic("integer divide by zero")
		}
		return smt.TRem(a, b)
	case token.LSS:
		return smt.Lt(a, b)
	case token.LEQ:
		return smt.Le(a, b)
	case token.GTR:
		return smt.Gt(a, b)
	case token.GEQ:
		return smt.Ge(a, b)
	case token.AND, token.OR, token.XOR, token.SHL, token.SHR, token.AND_NOT:
		if a.Sort == smt.Bool {
			switch op {
			case token.AND:
				return smt.And(a, b)
			case token.OR:
				return smt.Or(a, b)
			}
		}
		return smt.App("bit"+op.String(), smt.Int, a, b)
	}
	ex.abort("unsupported binop %s", op)
	return nil
}

func (ex *Exec) equal(x, y Val) *smt.Term {
	switch a := x.(type) {
	case *smt.Term:
		if b, ok := y.(*smt.Term); ok {
			return smt.Eq(a, b)
		}
		if _, ok := y.(*NilV); ok && a.Sort == smt.Err {
			return smt.Eq(a, ex.nilErr())
		}
	case *PtrV:
		if b, ok := y.(*PtrV); ok {
			if a.C == nil || b.C == nil {
				return smt.BoolC(a.C == nil && b.C == nil)
			}
			same := a.C == b.C && len(a.Path) == len(b.Path)
			if same {
				for i := range a.Path {
					if a.Path[i] != b.Path[i] {
						same = false
					}
				}
			}
			return smt.BoolC(same)
		}
	case *SliceV:
		if b, ok := y.(*SliceV); ok && (a.Arr == nil || b.Arr == nil) {
			return smt.BoolC(a.Arr == nil && b.Arr == nil)
		}
	case *LazyV: // lazy slice compared with nil
		if b, ok := y.(*SliceV); ok && b.Arr == nil {
			sl := ex.forceSlice(a)
			return smt.BoolC(sl.Arr == nil)
		}
	case *BytesV:
		if b, ok := y.(*BytesV); ok {
			if a.Nil || b.Nil {
				return smt.BoolC(a.Nil && b.Nil)
			}
		}
	case *NilV:
		switch b := y.(type) {
		case *NilV:
			return smt.True
		case *IfaceV, *OpaqueV, *ClosureV, *MapV:
			return smt.False
		case *smt.Term:
			if b.Sort == smt.Err {
				return smt.Eq(b, ex.nilErr())
			}
		case *PtrV:
			return smt.BoolC(b.C == nil)
		}
	case *IfaceV, *OpaqueV, *ClosureV, *MapV:
		if _, ok := y.(*NilV); ok {
			return smt.False
		}
	case *StructV:
		if b, ok := y.(*StructV); ok {
			fa, fb := ex.forceFields(a), ex.forceFields(b)
			var cs []*smt.Term
			for i := range fa {
				cs = append(cs, ex.equal(ex.force(fa[i]), ex.force(fb[i])))
			}
			return smt.And(cs...)
		}
	case *TimeV:
		if b, ok := y.(*TimeV); ok {
			return smt.Eq(a.Unix, b.Unix)
		}
	}
	if _, ok := x.(*NilV); !ok {
		if _, ok := y.(*NilV); ok {
			return ex.equal(y, x)
		}
	}
	// two collections (specifications only: Go has no slice equality): same length and equal
	// elements; a symbolic collection is materialised (bounded)
	if isSliceVal(x) && isSliceVal(y) {
		a, ok1 := ex.forceSliceVal(x)
		b, ok2 := ex.forceSliceVal(y)
		if ok1 && ok2 {
			if a.Len != b.Len {
				return smt.False
			}
			var cs []*smt.Term
			for i := 0; i < a.Len; i++ {
				cs = append(cs, ex.equal(ex.force(a.Arr.Elems[a.Off+i].V), ex.force(b.Arr.Elems[b.Off+i].V)))
			}
			return smt.And(cs...)
		}
	}
	ex.abort("unsupported equality between %T and %T", x, y)
	return nil
}

func isSliceVal(v Val) bool {
	switch x := v.(type) {
	case *SliceV:
		return true
	case *LazyV:
		_, ok := x.T.Underlying().(*types.Slice)
		return ok
	}
	return false
}

// ---- maps (executor-level association lists with forking key comparison) -------------------

type MapV struct {
	T       types.Type
	Entries []mapEntry
}
type mapEntry struct {
	K, V Val
}

func (ex *Exec) mapFind(m *MapV, k Val) int {
	for i := range m.Entries {
		c := ex.equal(ex.force(m.Entries[i].K), ex.force(k))
		if ex.branch(c) {
			return i
		}
	}
	return -1
}

func (ex *Exec) mapUpdate(mv, k, v Val) {
	if _, isOpaque := mv.(*OpaqueV); isOpaque {
		return // a map of unknown contents stays one
	}
	m, ok := mv.(*MapV)
	if !ok {
		ex.abort("map update on %T", mv)
	}
	if i := ex.mapFind(m, k); i >= 0 {
		m.Entries[i].V = copyVal(v)
		return
	}
	m.Entries = append(m.Entries, mapEntry{K: k, V: copyVal(v)})
}

func (ex *Exec) lookup(mv, k Val, ins *ssa.Lookup) Val {
	if t, ok := mv.(*smt.Term); ok && t.Sort == smt.Str {
		ex.abort("string index lookup")
	}
	m, ok := mv.(*MapV)
	if !ok {
		if _, isNil := mv.(*NilV); isNil {
			m = &MapV{T: ins.X.Type()}
		} else if _, isOpaque := mv.(*OpaqueV); isOpaque {
			// a map of unknown contents (the result of a call used by contract, or a map a loop
			// summarised by an invariant may have written): any value, present or not
			vt := ins.X.Type().Underlying().(*types.Map).Elem()
			v := ex.symbolic(vt, Namer{Prefix: ex.site("maplookup")})
			if ins.CommaOk {
				return TupleV{v, smt.Var(ex.site("maplookup!ok"), smt.Bool)}
			}
			return v
		} else {
			ex.abort("lookup on %T", mv)
		}
	}
	vt := ins.X.Type().Underlying().(*types.Map).Elem()
	i := ex.mapFind(m, k)
	var v Val
	if i >= 0 {
		v = copyVal(m.Entries[i].V)
	} else {
		v = ex.zero(vt)
	}
	if ins.CommaOk {
		return TupleV{v, smt.BoolC(i >= 0)}
	}
	return v
}

type rangeIter struct {
	m   *MapV
	pos int
	str bool
}

func (ex *Exec) rangeStart(x Val) Val {
	switch m := x.(type) {
	case *MapV:
		// Go's map iteration order is unspecified; entries are visited in insertion order
		// here (order-independence is a separate C19 obligation).
		return &rangeIter{m: m}
	case *NilV:
		return &rangeIter{m: &MapV{}}
	}
	ex.abort("range over %T", x)
	return nil
}

func (ex *Exec) rangeNext(it Val, ins *ssa.Next) Val {
	r, ok := it.(*rangeIter)
	if !ok {
		ex.abort("next on %T", it)
	}
	tt := ins.Type().(*types.Tuple)
	if r.pos >= len(r.m.Entries) {
		return TupleV{smt.False, ex.zeroOrNil(tt.At(1).Type()), ex.zeroOrNil(tt.At(2).Type())}
	}
	e := r.m.Entries[r.pos]
	r.pos++
	return TupleV{smt.True, e.K, copyVal(e.V)}
}

func (ex *Exec) zeroOrNil(t types.Type) Val {
	if b, ok := t.(*types.Basic); ok && b.Kind() == types.Invalid {
		return nil
	}
	return ex.zero(t)
}

func (ex *Exec) typeAssert(x Val, ins *ssa.TypeAssert) Val {
	x = ex.force(x)
	ok := false
	var v Val
	switch i := x.(type) {
	case *IfaceV:
		if _, isIface := ins.AssertedType.Underlying().(*types.Interface); isIface {
			ok = types.Implements(i.Dyn, ins.AssertedType.Underlying().(*types.Interface))
			v = x
		} else {
			ok = types.Identical(i.Dyn, ins.AssertedType)
			v = i.V
		}
	case *CtxV:
		ok, v = true, x
	case *NilV:
		ok = false
	default:
		ex.abort("type assertion on %T to %s", x, ins.AssertedType)
	}
	if ins.CommaOk {
		if !ok {
			v = ex.zero(ins.AssertedType)
		}
		return TupleV{v, smt.BoolC(ok)}
	}
	if !ok {
		ex.goPanic("failed type assertion")
	}
	return v
}

func newBig(s string) (*bigInt, bool) { return new(bigInt).SetString(s, 10) }

func sortedStrings(m map[string]bool) []string {
	var out []string
	for k := range m {
		out = append(out, k)
	}
	sort.Strings(out)
	return out
}
