package sym

import (
	"bufio"
	"fmt"
	"go/ast"
	"go/parser"
	"go/token"
	"go/types"
	"os"
	"path/filepath"
	"regexp"
	"sort"
	"strconv"
	"strings"

	"govc/smt"

	"golang.org/x/tools/go/ssa"
)

// Clause is one requires/ensures/invariant line.
type Clause struct {
	Name    string
	Src     string
	Expr    *Spec
	File    string
	Line    int
	Tags    []string // property ids this clause serves (from the name prefix "C06/...")
	Assumed bool     // used at call sites, not proved on the body
	Local   bool     // proved on the body, never assumed at call sites (a clause that may be a finding)
}

// StableDecl: fields of a struct type that only the listed functions assign.
type StableDecl struct {
	Type    string
	Fields  []string
	Writers []string
	PkgPath string
	File    string
	Line    int
	T       types.Type // resolved
}

// Spec is a parsed specification expression: a chain of implications over Go expressions.
type Spec struct {
	Ante []ast.Expr // a ==> b ==> c  ==  Ante[a,b], Cons c
	Cons ast.Expr
}

type Contract struct {
	Key               string // "(Keeper).Borrow", "(*Commitments).AddCommittedTokens", "FuncName"
	PkgPath           string
	File              string
	Line              int
	Requires          []*Clause
	Ensures           []*Clause
	OnPanic           []*Clause // obligations on panicking exits
	Assumes           []*Clause // state invariants assumed at entry (not proved at call sites; listed as assumptions)
	Callers           []*Clause // the only functions allowed to call this one (Src is the comma-separated list)
	Commutes          []*Clause // two calls (arguments X and X2) commute on the ghost world when the clause holds
	Mints             []*Clause // for every bank mint on a path and every denom d with non-zero amount
	Burns             []*Clause // likewise for burns
	SupplyWrapper     bool      // forwards its coins argument to a bank mint/burn: its callers are the sites
	MigrationOnly     bool      // must be unreachable from message and block entry points
	Modifies          []string
	HasMod            bool
	Bounds            map[string]int
	NoPanic           bool
	Inline            bool
	Entry             bool // an entry point of the chain (message handler or block function)
	Reader            bool // reads the invariant's state only; its callers need no contract
	InlineOwn         bool
	ModularFor        []string // used by contract only when one of these functions is under verification
	Iterates          string             // callback parameter this function calls once per element of a store range (and does nothing else to the state)
	CallbackExits     map[string]*Clause // callee key -> what holds when the callback stops the loop (default: the invariant)
	CallbackInvs      map[string]*Clause // callee key -> inductive invariant of the loop that callee runs over this function's callback
	Unroll            int      // with loop-bounded: iterations after which a loop of this function's run is cut (default: the global bound)
	LoopBounded       bool     // loops cut at the unrolling bound are accepted; the obligations are labelled bounded
	CallersAssumed    string
	CallersAssumedFor map[string]string
	Instances         []ast.Expr
	Trusted           bool // assumed, not verified (listed in the evidence as an assumption)
	Derived           string
	HavocOnly         bool
	FrameOnly         bool
	Pure              bool
	Alias             []string // positional parameter names of the interface method (receiver first)
	Iface             bool     // contract of an interface method (hooks, external keepers)
	DecAbs            bool
	Foralls           map[string]smt.Sort // implicitly universally quantified identifiers
	Lets              []letDecl
	Fn                *ssa.Function
}

type letDecl struct {
	Name string
	Expr ast.Expr
	Old  bool
}

type Define struct {
	Name   string
	Params []string
	Body   *Spec
	Pkg    string
}

type AggSpec struct {
	Name    string
	Params  []string
	Table   string
	RowType string // "types.Debt"
	Value   ast.Expr
	PkgPath string
	File    string
}

// SpecSet is everything parsed from the contract files.
type SpecSet struct {
	Contracts []*Contract
	Defines   map[string]*Define
	Aggs      []*AggSpec
	RowInvs   []*RowInv
	Stable    []*StableDecl
	Lemmas    []*Lemma
	Prefixes  []*PrefixFamily
	Files     []string
}

// PrefixFamily declares what a key-prefix builder selects in a table: the rows whose key
// components at Fixed equal the builder's arguments, visited by a prefix iterator in the
// lexicographic order of the components at Order (ascending; reversed by the reverse iterator).
// (That the byte prefix selects exactly these rows is the subject of the C16 key lemmas.)
type PrefixFamily struct {
	Builder string // BytesV tag, e.g. "types.PriceKeyPrefixAssetAndSource"
	Table   string
	Fixed   []int
	Order   []int
}

// Lemma is a pure specification-level fact (no code): universally quantified over its
// declared variables and discharged by the solvers on every run.
type Lemma struct {
	Name    string
	Vars    []string
	Sorts   []smt.Sort
	Expr    *Spec
	PkgPath string
	File    string
	Line    int
	Tags    []string
}

// RowInv is an invariant of every row of a table: assumed of rows read from the unknown
// initial contents (and of rows havocked by a callee's contract), proved at every write.
type RowInv struct {
	Name    string
	Table   string
	RowType string
	Expr    *Spec
	PkgPath string
	File    string
	Line    int
	rowT    types.Type
	pkg     *types.Package
}

var implRe = regexp.MustCompile(`==>`)

func parseSpec(src string) (*Spec, error) {
	parts := splitTop(src, "==>")
	sp := &Spec{}
	for i, p := range parts {
		p = strings.TrimSpace(p)
		e, err := parser.ParseExpr(p)
		if err != nil {
			return nil, fmt.Errorf("parse %q: %v", p, err)
		}
		if i == len(parts)-1 {
			sp.Cons = e
		} else {
			sp.Ante = append(sp.Ante, e)
		}
	}
	return sp, nil
}

// splitTop splits at top-level (paren depth 0) occurrences of sep.
func splitTop(s, sep string) []string {
	var out []string
	depth := 0
	last := 0
	inStr := false
	for i := 0; i < len(s); i++ {
		c := s[i]
		if inStr {
			if c == '"' && s[i-1] != '\\' {
				inStr = false
			}
			continue
		}
		switch c {
		case '"':
			inStr = true
		case '(', '[', '{':
			depth++
		case ')', ']', '}':
			depth--
		}
		if depth == 0 && strings.HasPrefix(s[i:], sep) {
			out = append(out, s[last:i])
			last = i + len(sep)
			i += len(sep) - 1
		}
	}
	out = append(out, s[last:])
	return out
}

var nameRe = regexp.MustCompile(`^([A-Za-z0-9_./,\-]+):\s+(.*)$`)

// LoadSpecs parses every contracts_verif.go under root.
func LoadSpecs(root string) (*SpecSet, error) {
	ss := &SpecSet{Defines: map[string]*Define{}}
	var files []string
	err := filepath.Walk(root, func(p string, info os.FileInfo, err error) error {
		if err != nil {
			return nil
		}
		if info.IsDir() && (info.Name() == ".git" || info.Name() == "node_modules") {
			return filepath.SkipDir
		}
		if !info.IsDir() && strings.HasSuffix(info.Name(), "_verif.go") && strings.HasPrefix(info.Name(), "contracts") {
			files = append(files, p)
		}
		return nil
	})
	if err != nil {
		return nil, err
	}
	sort.Strings(files)
	for _, f := range files {
		if err := ss.parseFile(root, f); err != nil {
			return nil, err
		}
	}
	ss.Files = files
	return ss, nil
}

func (ss *SpecSet) parseFile(root, file string) error {
	fh, err := os.Open(file)
	if err != nil {
		return err
	}
	defer fh.Close()
	rel, _ := filepath.Rel(root, filepath.Dir(file))
	pkgPath := elysMod + "/" + filepath.ToSlash(rel)
	sc := bufio.NewScanner(fh)
	sc.Buffer(make([]byte, 1<<20), 1<<20)
	var cur *Contract
	ln := 0
	var pending string
	var pendingLine int
	flush := func() error {
		if pending == "" {
			return nil
		}
		line := pending
		pending = ""
		return ss.directive(&cur, pkgPath, file, pendingLine, line)
	}
	for sc.Scan() {
		ln++
		txt := strings.TrimSpace(sc.Text())
		if !strings.HasPrefix(txt, "//@") {
			if err := flush(); err != nil {
				return err
			}
			continue
		}
		body := strings.TrimSpace(strings.TrimPrefix(txt, "//@"))
		if strings.HasPrefix(body, "|") { // continuation line
			pending += " " + strings.TrimSpace(strings.TrimPrefix(body, "|"))
			continue
		}
		if err := flush(); err != nil {
			return err
		}
		pending, pendingLine = body, ln
	}
	return flush()
}

func (ss *SpecSet) directive(cur **Contract, pkgPath, file string, ln int, body string) error {
	fail := func(err error) error { return fmt.Errorf("%s:%d: %v", file, ln, err) }
	word := body
	rest := ""
	if i := strings.IndexAny(body, " \t"); i >= 0 {
		word, rest = body[:i], strings.TrimSpace(body[i+1:])
	}
	clause := func() (*Clause, error) {
		c := &Clause{Src: rest, File: file, Line: ln}
		if m := nameRe.FindStringSubmatch(rest); m != nil && !strings.Contains(m[1], "==") {
			c.Name, c.Src = m[1], m[2]
		} else {
			// unnamed clauses are numbered within their contract (stable under edits elsewhere)
			n := 1
			if *cur != nil {
				n = len((*cur).Requires) + len((*cur).Ensures) + len((*cur).OnPanic) + 1
			}
			c.Name = fmt.Sprintf("%s%d", word[:3], n)
		}
		if i := strings.Index(c.Name, "/"); i > 0 {
			for _, t := range strings.Split(c.Name[:i], ",") {
				c.Tags = append(c.Tags, t)
			}
		}
		sp, err := parseSpec(c.Src)
		if err != nil {
			return nil, err
		}
		c.Expr = sp
		return c, nil
	}
	switch word {
	case "func":
		c := &Contract{Key: strings.ReplaceAll(rest, " ", ""), PkgPath: pkgPath, File: file, Line: ln, Bounds: map[string]int{}, Foralls: map[string]smt.Sort{}}
		ss.Contracts = append(ss.Contracts, c)
		*cur = c
	case "supply-wrapper":
		if *cur != nil {
			(*cur).SupplyWrapper = true
		}
	case "migration-only":
		if *cur != nil {
			(*cur).MigrationOnly = true
		}
	case "callers":
		if *cur == nil {
			return fail(fmt.Errorf("callers outside a func block"))
		}
		c := &Clause{Src: rest, File: file, Line: ln, Expr: &Spec{}}
		if m := nameRe.FindStringSubmatch(rest); m != nil {
			c.Name, c.Src = m[1], m[2]
			if i := strings.Index(c.Name, "/"); i > 0 {
				c.Tags = strings.Split(c.Name[:i], ",")
			}
		}
		(*cur).Callers = append((*cur).Callers, c)
	case "requires", "ensures", "assumed-ensures", "local-ensures", "onpanic", "mints", "burns", "commutes", "assumes":
		if *cur == nil {
			return fail(fmt.Errorf("%s outside a func block", word))
		}
		c, err := clause()
		if err != nil {
			return fail(err)
		}
		switch word {
		case "requires":
			(*cur).Requires = append((*cur).Requires, c)
		case "ensures":
			(*cur).Ensures = append((*cur).Ensures, c)
		case "local-ensures":
			// a postcondition decided on the body but never handed to callers: for a clause
			// that is (or may become) a recorded finding - assuming a refuted clause at call
			// sites would make the callers' paths through the defect look infeasible
			c.Local = true
			(*cur).Ensures = append((*cur).Ensures, c)
		case "assumed-ensures":
			// a postcondition used at call sites but NOT proved on the body: an explicit,
			// reported assumption (the reason goes in the comment above it)
			c.Assumed = true
			(*cur).Ensures = append((*cur).Ensures, c)
		case "onpanic":
			(*cur).OnPanic = append((*cur).OnPanic, c)
		case "assumes":
			(*cur).Assumes = append((*cur).Assumes, c)
		case "commutes":
			(*cur).Commutes = append((*cur).Commutes, c)
		case "mints":
			(*cur).Mints = append((*cur).Mints, c)
		case "burns":
			(*cur).Burns = append((*cur).Burns, c)
		}
	case "modifies":
		if *cur == nil {
			return fail(fmt.Errorf("modifies outside a func block"))
		}
		(*cur).HasMod = true
		for _, m := range splitTop(rest, ",") {
			m = strings.TrimSpace(m)
			if m != "" && m != "nothing" {
				(*cur).Modifies = append((*cur).Modifies, m)
			}
		}
	case "bound":
		f := strings.Fields(rest)
		if len(f) != 2 || *cur == nil {
			return fail(fmt.Errorf("bound <leaf-suffix> <n>"))
		}
		n, err := strconv.Atoi(f[1])
		if err != nil {
			return fail(err)
		}
		(*cur).Bounds[f[0]] = n
	case "iface":
		c := &Contract{Key: strings.ReplaceAll(rest, " ", ""), PkgPath: pkgPath, File: file, Line: ln, Bounds: map[string]int{}, Foralls: map[string]smt.Sort{}, Iface: true, Trusted: true}
		ss.Contracts = append(ss.Contracts, c)
		*cur = c
	case "rowinv":
		// rowinv <name> table <id> row <pkg.Type> : <expr>
		f := strings.Fields(rest)
		i := strings.Index(rest, " : ")
		if len(f) < 6 || f[1] != "table" || f[3] != "row" || i < 0 {
			return fail(fmt.Errorf("rowinv <name> table <id> row <type> : <expr>"))
		}
		sp, err := parseSpec(strings.TrimSpace(rest[i+3:]))
		if err != nil {
			return fail(err)
		}
		ss.RowInvs = append(ss.RowInvs, &RowInv{Name: f[0], Table: f[2], RowType: f[4], Expr: sp, PkgPath: pkgPath, File: file, Line: ln})
	case "stablefields":
		// stablefields <pkg.Type> <Field> <Field> ... : <writer>, <writer>
		// the listed fields of an object of this type are assigned only inside the listed
		// functions (checked by a scan over all stores); a havoc of such an object through a
		// pointer keeps them
		parts := strings.SplitN(rest, ":", 2)
		f := strings.Fields(parts[0])
		if len(f) < 2 {
			return fail(fmt.Errorf("stablefields <pkg.Type> <Field>... : <writers>"))
		}
		sd := &StableDecl{Type: f[0], Fields: f[1:], PkgPath: pkgPath, File: file, Line: ln}
		if len(parts) == 2 {
			for _, w := range strings.Split(parts[1], ",") {
				if w = strings.ReplaceAll(strings.TrimSpace(w), " ", ""); w != "" {
					sd.Writers = append(sd.Writers, w)
				}
			}
		}
		ss.Stable = append(ss.Stable, sd)
	case "prefixfamily":
		// prefixfamily <builder-tag> table <id> fixes <i,j> order <k,l>
		f := strings.Fields(rest)
		if len(f) != 7 || f[1] != "table" || f[3] != "fixes" || f[5] != "order" {
			return fail(fmt.Errorf("prefixfamily <builder> table <id> fixes <i,j|-> order <k,l>"))
		}
		pf := &PrefixFamily{Builder: f[0], Table: f[2]}
		for _, x := range strings.Split(f[4], ",") {
			if x != "-" && x != "" {
				n, err := strconv.Atoi(x)
				if err != nil {
					return fail(err)
				}
				pf.Fixed = append(pf.Fixed, n)
			}
		}
		for _, x := range strings.Split(f[6], ",") {
			n, err := strconv.Atoi(x)
			if err != nil {
				return fail(err)
			}
			pf.Order = append(pf.Order, n)
		}
		ss.Prefixes = append(ss.Prefixes, pf)
	case "lemma":
		// lemma <name> (x Int, y Str): <expr>
		i := strings.Index(rest, "(")
		j := strings.Index(rest, "):")
		if i < 0 || j < i {
			return fail(fmt.Errorf("lemma <name> (x Int, ...): <expr>"))
		}
		l := &Lemma{Name: strings.TrimSpace(rest[:i]), PkgPath: pkgPath, File: file, Line: ln}
		for _, v := range strings.Split(rest[i+1:j], ",") {
			f := strings.Fields(v)
			if len(f) != 2 {
				return fail(fmt.Errorf("lemma variable %q", v))
			}
			l.Vars = append(l.Vars, f[0])
			l.Sorts = append(l.Sorts, smt.Sort(f[1]))
		}
		sp, err := parseSpec(strings.TrimSpace(rest[j+2:]))
		if err != nil {
			return fail(err)
		}
		l.Expr = sp
		if k := strings.Index(l.Name, "/"); k > 0 {
			l.Tags = strings.Split(l.Name[:k], ",")
		}
		ss.Lemmas = append(ss.Lemmas, l)
	case "trusted":
		if *cur != nil {
			(*cur).Trusted = true
		}
	case "pure":
		// modifies nothing and deterministic: two calls with equal scalar arguments in the
		// same ghost-world state return the same value (results are functions of the arguments
		// and of the state version)
		if *cur != nil {
			(*cur).Pure = true
			(*cur).HasMod = true
		}
	case "frame-only":
		// the contract consists of a modifies clause at module granularity that is checked
		// against the call-graph frame inference (not by symbolic execution of the body)
		if *cur != nil {
			(*cur).Trusted = true
			(*cur).FrameOnly = true
		}
	case "havoc-only":
		// `modifies world` with no ensures: the weakest contract, sound without proof
		if *cur != nil {
			(*cur).Trusted = true
			(*cur).HavocOnly = true
		}
	case "derived":
		// a contract that is not checked against a body but follows from a stated rule
		// over other, checked contracts (e.g. module-private delta invariants for hooks)
		if *cur != nil {
			(*cur).Trusted = true
			(*cur).Derived = rest
		}
	case "nopanic":
		(*cur).NoPanic = true
	case "inline":
		(*cur).Inline = true
	case "entry":
		(*cur).Entry = true
	case "callers-assumed":
		// the preconditions of this function are assumed at its call sites (not followed
		// upwards by the closure scan); reported as an assumption
		// optional leading property id: `callers-assumed C01: reason` cuts the closure of that
		// property only
		if (*cur).CallersAssumedFor == nil {
			(*cur).CallersAssumedFor = map[string]string{}
		}
		if m := regexp.MustCompile(`^(C[0-9][0-9])\s*:\s*(.*)$`).FindStringSubmatch(rest); m != nil {
			(*cur).CallersAssumedFor[m[1]] = m[2]
		} else {
			(*cur).CallersAssumed = rest
		}
	case "reader", "other-tables":
		// the (checked) frame of this function excludes the invariant's tables: its callers
		// need no contract on its account
		(*cur).Reader = true
	case "inline-within-module":
		// used by contract at call sites in other modules only; functions of its own module
		// under verification see the body (both are sound; the body keeps the detail the
		// module's own invariants need)
		(*cur).InlineOwn = true
	case "unroll":
		n, err := strconv.Atoi(strings.TrimSpace(rest))
		if err != nil || n < 1 || *cur == nil {
			return fail(fmt.Errorf("unroll <n>"))
		}
		(*cur).Unroll = n
	case "loop-bounded":
		// the function iterates a store range of unknown length: its obligations are decided for
		// every run of at most the unrolling bound iterations and labelled BOUNDED (not a proof
		// beyond the bound); meant for frames of loops whose iterations all do the same thing
		(*cur).LoopBounded = true
	case "iterates":
		// iterates <param>: the function reads a store range and calls the function value handed in
		// as <param> once per element, until it answers true; it writes nothing itself. A caller whose
		// contract carries a `callback-invariant` for this function is verified against that
		// invariant (base, step for an arbitrary element, use after the loop) instead of unrolling.
		(*cur).Iterates = strings.TrimSpace(rest)
	case "callback-invariant", "callback-exit":
		// callback-invariant <CalleeKey> :: <name>: <expr over parameters, old(...) and the callback's captured variables>
		f := strings.SplitN(rest, "::", 2)
		if len(f) != 2 || *cur == nil {
			return fail(fmt.Errorf("callback-invariant <CalleeKey> :: <name>: <expr>"))
		}
		key := strings.TrimSpace(f[0])
		rest = strings.TrimSpace(f[1])
		c, err := clause()
		if err != nil {
			return fail(err)
		}
		if (*cur).CallbackInvs == nil {
			(*cur).CallbackInvs = map[string]*Clause{}
			(*cur).CallbackExits = map[string]*Clause{}
		}
		if word == "callback-exit" {
			(*cur).CallbackExits[key] = c
		} else {
			(*cur).CallbackInvs[key] = c
		}
	case "modular-for":
		// modular-for <FuncKey>, <FuncKey>: the contract (with its modifies clause) stands in
		// for the body only while one of the named functions is verified; everywhere else the
		// body is executed in line, as for a contract without a frame
		for _, k := range strings.Split(rest, ",") {
			if k = strings.TrimSpace(k); k != "" {
				(*cur).ModularFor = append((*cur).ModularFor, k)
			}
		}
	case "decabstract":
		(*cur).DecAbs = true
	case "forall":
		f := strings.Fields(rest)
		if len(f) != 2 || *cur == nil {
			return fail(fmt.Errorf("forall <name> <sort>"))
		}
		(*cur).Foralls[f[0]] = smt.Sort(f[1])
	case "instances":
		// instances <expr>, <expr>: ground terms (evaluated at entry) offered, next to the
		// quantified constants, as instances of the universally quantified variables of the
		// contracts applied at call sites
		if *cur == nil {
			return fail(fmt.Errorf("instances outside a contract"))
		}
		e, err := parser.ParseExpr("f(" + rest + ")")
		if err != nil {
			return fail(err)
		}
		(*cur).Instances = append((*cur).Instances, e.(*ast.CallExpr).Args...)
	case "let", "letold":
		i := strings.Index(rest, ":=")
		if i < 0 || *cur == nil {
			return fail(fmt.Errorf("let name := expr"))
		}
		e, err := parser.ParseExpr(strings.TrimSpace(rest[i+2:]))
		if err != nil {
			return fail(err)
		}
		(*cur).Lets = append((*cur).Lets, letDecl{Name: strings.TrimSpace(rest[:i]), Expr: e, Old: word == "letold"})
	case "define":
		i := strings.Index(rest, ":=")
		if i < 0 {
			return fail(fmt.Errorf("define name(params) := expr"))
		}
		head := strings.TrimSpace(rest[:i])
		sp, err := parseSpec(strings.TrimSpace(rest[i+2:]))
		if err != nil {
			return fail(err)
		}
		d := &Define{Body: sp, Pkg: pkgPath}
		if j := strings.Index(head, "("); j >= 0 {
			d.Name = head[:j]
			ps := strings.TrimSuffix(head[j+1:], ")")
			for _, p := range strings.Split(ps, ",") {
				if p = strings.TrimSpace(p); p != "" {
					d.Params = append(d.Params, p)
				}
			}
		} else {
			d.Name = head
		}
		ss.Defines[d.Name] = d
	case "aggregate":
		// aggregate <name>[(p0,p1)] table <id> row <pkg.Type> value <expr over row, key0.., params>
		a := &AggSpec{PkgPath: pkgPath, File: file}
		f := strings.Fields(rest)
		if len(f) < 7 || f[1] != "table" || f[3] != "row" || f[5] != "value" {
			return fail(fmt.Errorf("aggregate <name>[(params)] table <id> row <type> value <expr>"))
		}
		a.Name, a.Table, a.RowType = f[0], f[2], f[4]
		if j := strings.Index(a.Name, "("); j >= 0 {
			for _, p := range strings.Split(strings.TrimSuffix(a.Name[j+1:], ")"), ",") {
				if p = strings.TrimSpace(p); p != "" {
					a.Params = append(a.Params, p)
				}
			}
			a.Name = a.Name[:j]
		}
		val := strings.TrimSpace(rest[strings.Index(rest, " value ")+7:])
		e, err := parser.ParseExpr(val)
		if err != nil {
			return fail(err)
		}
		a.Value = e
		ss.Aggs = append(ss.Aggs, a)
	case "note":
		// free-text documentation lines
	default:
		return fail(fmt.Errorf("unknown directive %q", word))
	}
	return nil
}

// ---- binding contracts to SSA functions -----------------------------------------------------

// FuncKey renders an SSA function the way contract files name it.
func FuncKey(fn *ssa.Function) string {
	if recv := fn.Signature.Recv(); recv != nil {
		t := recv.Type()
		ptr := ""
		if p, ok := t.(*types.Pointer); ok {
			t = p.Elem()
			ptr = "*"
		}
		if n, ok := types.Unalias(t).(*types.Named); ok {
			return "(" + ptr + n.Obj().Name() + ")." + fn.Name()
		}
	}
	return fn.Name()
}

// Bind resolves contracts to functions of the program.
func (ss *SpecSet) Bind(prog *ssa.Program) (map[*ssa.Function]*Contract, []string) {
	out := map[*ssa.Function]*Contract{}
	var unbound []string
	byPkg := map[string]*ssa.Package{}
	for _, p := range prog.AllPackages() {
		byPkg[p.Pkg.Path()] = p
	}
	for _, c := range ss.Contracts {
		if c.Iface {
			continue
		}
		p := byPkg[c.PkgPath]
		if p == nil {
			unbound = append(unbound, c.PkgPath+" "+c.Key+" (package not loaded)")
			continue
		}
		var found *ssa.Function
		for _, m := range p.Members {
			switch m := m.(type) {
			case *ssa.Function:
				if FuncKey(m) == c.Key {
					found = m
				}
			case *ssa.Type:
				for _, t := range []types.Type{m.Type(), types.NewPointer(m.Type())} {
					ms := prog.MethodSets.MethodSet(t)
					for i := 0; i < ms.Len(); i++ {
						f := prog.MethodValue(ms.At(i))
						if f != nil && f.Synthetic == "" && FuncKey(f) == c.Key {
							found = f
						}
					}
				}
			}
		}
		if found == nil {
			unbound = append(unbound, c.PkgPath+" "+c.Key)
			continue
		}
		c.Fn = found
		out[found] = c
	}
	return out, unbound
}

// ---- evaluation of specification expressions ---------------------------------------------------

type tval struct {
	V Val
	T types.Type
}

type evalEnv struct {
	ex      *Exec
	vars    map[string]tval
	oldVars map[string]tval
	inOld   bool
	specs   *SpecSet
	pkg     *types.Package // package of the function under contract (for type / func lookup)
	binder  int            // >0 while under a quantifier (forks forbidden)
}

func (ev *evalEnv) lookup(name string) (tval, bool) {
	if ev.inOld {
		if v, ok := ev.oldVars[name]; ok {
			return v, true
		}
	}
	v, ok := ev.vars[name]
	return v, ok
}

func (ev *evalEnv) bool(sp *Spec) *smt.Term {
	var antes []*smt.Term
	for _, a := range sp.Ante {
		antes = append(antes, ev.ex.term(ev.eval(a).V))
	}
	// evaluate the consequent only under the antecedents (so that partial getters are
	// not forced on paths where the antecedent is already false)
	ante := smt.And(antes...)
	if ante.IsFalse() || ev.ex.simplifyUnder(ante).IsFalse() {
		return smt.True
	}
	return smt.Implies(ante, ev.ex.term(ev.eval(sp.Cons).V))
}

func (ev *evalEnv) fail(e ast.Expr, format string, a ...interface{}) {
	ev.ex.abort("spec: %s: %s", exprString(e), fmt.Sprintf(format, a...))
}

func exprString(e ast.Expr) string {
	var sb strings.Builder
	fset := token.NewFileSet()
	_ = fset
	writeExpr(&sb, e)
	return sb.String()
}

func writeExpr(sb *strings.Builder, e ast.Expr) {
	switch x := e.(type) {
	case *ast.Ident:
		sb.WriteString(x.Name)
	case *ast.BasicLit:
		sb.WriteString(x.Value)
	case *ast.SelectorExpr:
		writeExpr(sb, x.X)
		sb.WriteString("." + x.Sel.Name)
	case *ast.CallExpr:
		writeExpr(sb, x.Fun)
		sb.WriteString("(")
		for i, a := range x.Args {
			if i > 0 {
				sb.WriteString(", ")
			}
			writeExpr(sb, a)
		}
		sb.WriteString(")")
	case *ast.BinaryExpr:
		sb.WriteString("(")
		writeExpr(sb, x.X)
		sb.WriteString(" " + x.Op.String() + " ")
		writeExpr(sb, x.Y)
		sb.WriteString(")")
	case *ast.UnaryExpr:
		sb.WriteString(x.Op.String())
		writeExpr(sb, x.X)
	case *ast.ParenExpr:
		sb.WriteString("(")
		writeExpr(sb, x.X)
		sb.WriteString(")")
	case *ast.IndexExpr:
		writeExpr(sb, x.X)
		sb.WriteString("[")
		writeExpr(sb, x.Index)
		sb.WriteString("]")
	case *ast.StarExpr:
		sb.WriteString("*")
		writeExpr(sb, x.X)
	default:
		fmt.Fprintf(sb, "<%T>", e)
	}
}

func (ev *evalEnv) eval(e ast.Expr) tval {
	ex := ev.ex
	switch x := e.(type) {
	case *ast.ParenExpr:
		return ev.eval(x.X)
	case *ast.BasicLit:
		switch x.Kind {
		case token.INT:
			bi, ok := new(bigInt).SetString(strings.ReplaceAll(x.Value, "_", ""), 0)
			if !ok {
				ev.fail(e, "bad integer")
			}
			return tval{smt.IntBig(bi), types.Typ[types.Int]}
		case token.STRING:
			s, _ := strconv.Unquote(x.Value)
			return tval{smt.StrC(s), types.Typ[types.String]}
		}
		ev.fail(e, "unsupported literal")
	case *ast.Ident:
		switch x.Name {
		case "true":
			return tval{smt.True, types.Typ[types.Bool]}
		case "false":
			return tval{smt.False, types.Typ[types.Bool]}
		case "nil":
			return tval{&NilV{}, nil}
		}
		if v, ok := ev.lookup(x.Name); ok {
			return v
		}
		if d, ok := ev.specs.Defines[x.Name]; ok && len(d.Params) == 0 {
			return ev.evalSpecVal(d.Body)
		}
		// package-level constant or variable of the contract's package
		if ev.pkg != nil {
			if obj := ev.pkg.Scope().Lookup(x.Name); obj != nil {
				return ev.objVal(e, obj)
			}
		}
		ev.fail(e, "unknown identifier")
	case *ast.UnaryExpr:
		v := ev.eval(x.X)
		switch x.Op {
		case token.NOT:
			return tval{smt.Not(ex.term(v.V)), types.Typ[types.Bool]}
		case token.SUB:
			return tval{smt.Neg(ex.term(v.V)), v.T}
		}
		ev.fail(e, "unsupported unary operator")
	case *ast.StarExpr:
		v := ev.eval(x.X)
		p, ok := ex.force(v.V).(*PtrV)
		if !ok {
			ev.fail(e, "deref of non-pointer")
		}
		return tval{ex.load(p), p.T}
	case *ast.BinaryExpr:
		switch x.Op {
		case token.LAND:
			a := ex.term(ev.eval(x.X).V)
			if a.IsFalse() {
				return tval{smt.False, types.Typ[types.Bool]}
			}
			return tval{smt.And(a, ex.term(ev.eval(x.Y).V)), types.Typ[types.Bool]}
		case token.LOR:
			a := ex.term(ev.eval(x.X).V)
			if a.IsTrue() {
				return tval{smt.True, types.Typ[types.Bool]}
			}
			return tval{smt.Or(a, ex.term(ev.eval(x.Y).V)), types.Typ[types.Bool]}
		}
		a, b := ev.eval(x.X), ev.eval(x.Y)
		switch x.Op {
		case token.EQL:
			return tval{ex.equal(ex.force(a.V), ex.force(b.V)), types.Typ[types.Bool]}
		case token.NEQ:
			return tval{smt.Not(ex.equal(ex.force(a.V), ex.force(b.V))), types.Typ[types.Bool]}
		}
		at, bt := ex.term(a.V), ex.term(b.V)
		switch x.Op {
		case token.ADD:
			return tval{smt.Add(at, bt), a.T}
		case token.SUB:
			return tval{smt.Sub(at, bt), a.T}
		case token.MUL:
			return tval{smt.Mul(at, bt), a.T}
		case token.QUO:
			return tval{smt.TDiv(at, bt), a.T}
		case token.REM:
			return tval{smt.TRem(at, bt), a.T}
		case token.LSS:
			return tval{smt.Lt(at, bt), types.Typ[types.Bool]}
		case token.LEQ:
			return tval{smt.Le(at, bt), types.Typ[types.Bool]}
		case token.GTR:
			return tval{smt.Gt(at, bt), types.Typ[types.Bool]}
		case token.GEQ:
			return tval{smt.Ge(at, bt), types.Typ[types.Bool]}
		}
		ev.fail(e, "unsupported binary operator")
	case *ast.SelectorExpr:
		// package-qualified name?
		if id, ok := x.X.(*ast.Ident); ok {
			if _, isVar := ev.lookup(id.Name); !isVar {
				if ev.importedPkg(id.Name) != nil {
					p := ev.importedPkg(id.Name, x.Sel.Name)
					if p == nil {
						ev.fail(e, "unknown package member")
					}
					return ev.objVal(e, p.Scope().Lookup(x.Sel.Name))
				}
			}
		}
		v := ev.eval(x.X)
		return ev.selectField(e, v, x.Sel.Name)
	case *ast.IndexExpr:
		v := ev.eval(x.X)
		idx := ex.term(ev.eval(x.Index).V)
		sl := ex.forceSlice(ex.force(v.V))
		i := ex.indexOf(sl, idx)
		var et types.Type
		if v.T != nil {
			if st, ok := v.T.Underlying().(*types.Slice); ok {
				et = st.Elem()
			}
		}
		return tval{copyVal(ex.force(sl.Arr.Elems[sl.Off+i].V)), et}
	case *ast.CallExpr:
		return ev.call(x)
	}
	ev.fail(e, "unsupported expression %T", e)
	return tval{}
}

func (ev *evalEnv) evalSpecVal(sp *Spec) tval {
	if len(sp.Ante) == 0 {
		return ev.eval(sp.Cons)
	}
	return tval{ev.bool(sp), types.Typ[types.Bool]}
}

// importedPkgs lists the packages a qualifier may refer to: the sibling elys package of that
// name first, then imports of the contract's package with that name, then known aliases.
func (ev *evalEnv) importedPkgs(name string) []*types.Package {
	var out []*types.Package
	if ev.pkg != nil {
		path := ev.pkg.Path()
		if i := strings.LastIndex(path, "/"); i >= 0 {
			sib := path[:i] + "/" + name
			for _, p := range ev.ex.Cfg.Prog.AllPackages() {
				if p.Pkg.Path() == sib {
					out = append(out, p.Pkg)
				}
			}
		}
		for _, imp := range ev.pkg.Imports() {
			if imp.Name() == name {
				out = append(out, imp)
			}
		}
	}
	if alias, ok := pkgAliases[name]; ok {
		for _, p := range ev.ex.Cfg.Prog.AllPackages() {
			if p.Pkg.Path() == alias {
				out = append(out, p.Pkg)
			}
		}
	}
	for _, p := range ev.ex.Cfg.Prog.AllPackages() {
		if p.Pkg.Name() == name && isElysPkg(p.Pkg) {
			out = append(out, p.Pkg)
		}
	}
	return out
}

// importedPkg returns the first candidate package that declares member (or any candidate
// when member is empty).
func (ev *evalEnv) importedPkg(name string, member ...string) *types.Package {
	cands := ev.importedPkgs(name)
	if len(member) > 0 {
		for _, c := range cands {
			if c.Scope().Lookup(member[0]) != nil {
				return c
			}
		}
		return nil
	}
	if len(cands) > 0 {
		return cands[0]
	}
	return nil
}

func init() {
	for _, m := range []string{"amm", "commitment", "stablestake", "leveragelp", "perpetual", "masterchef", "accountedpool", "oracle", "tradeshield", "estaking", "tier", "burner", "assetprofile", "parameter", "tokenomics", "epochs"} {
		pkgAliases[m+"types"] = elysMod + "/x/" + m + "/types"
	}
	pkgAliases["stabletypes"] = elysMod + "/x/stablestake/types"
}

var pkgAliases = map[string]string{
	"ptypes":    elysMod + "/x/parameter/types",
	"sdkmath":   "cosmossdk.io/math",
	"sdk":       sdkT,
	"ammtypes":  elysMod + "/x/amm/types",
	"ctypes":    elysMod + "/x/commitment/types",
	"sstypes":   elysMod + "/x/stablestake/types",
	"authtypes": "github.com/cosmos/cosmos-sdk/x/auth/types",
}

func (ev *evalEnv) objVal(e ast.Expr, obj types.Object) tval {
	ex := ev.ex
	switch o := obj.(type) {
	case *types.Const:
		c := ssa.NewConst(o.Val(), o.Type())
		return tval{ex.constVal(c), o.Type()}
	case *types.Var:
		p := ex.Cfg.Prog.Package(o.Pkg())
		if p != nil {
			if g, ok := p.Members[o.Name()].(*ssa.Global); ok {
				c := ex.globalCell(g)
				return tval{ex.load(&PtrV{C: c, T: c.T}), c.T}
			}
		}
	case *types.Func:
		p := ex.Cfg.Prog.Package(o.Pkg())
		if p != nil {
			if f := p.Func(o.Name()); f != nil {
				return tval{&ClosureV{Fn: f}, o.Type()}
			}
		}
		if f := ex.Cfg.Prog.FuncValue(o); f != nil {
			return tval{&ClosureV{Fn: f}, o.Type()}
		}
	}
	ev.fail(e, "cannot evaluate package member")
	return tval{}
}

func (ev *evalEnv) selectField(e ast.Expr, v tval, name string) tval {
	ex := ev.ex
	val := ex.force(v.V)
	if p, ok := val.(*PtrV); ok {
		val = ex.load(p)
		v.T = p.T
	}
	switch s := val.(type) {
	case *StructV:
		st, ok := s.T.Underlying().(*types.Struct)
		if !ok {
			ev.fail(e, "not a struct")
		}
		for i := 0; i < st.NumFields(); i++ {
			if st.Field(i).Name() == name {
				return tval{copyVal(ex.field(s, i)), st.Field(i).Type()}
			}
		}
		ev.fail(e, "no field %s in %s", name, s.T)
	case *TimeV:
		if name == "Unix" {
			return tval{s.Unix, types.Typ[types.Int64]}
		}
	}
	ev.fail(e, "field selection on %T", val)
	return tval{}
}

func (ev *evalEnv) call(x *ast.CallExpr) tval {
	ex := ev.ex
	boolT := types.Typ[types.Bool]
	intT := types.Typ[types.Int]
	if id, ok := x.Fun.(*ast.Ident); ok {
		switch id.Name {
		case "old":
			if ev.inOld {
				return ev.eval(x.Args[0])
			}
			ev.inOld = true
			defer func() { ev.inOld = false }()
			return ev.eval(x.Args[0])
		case "bal":
			c := ev.ctxArg(x, 0)
			return tval{ex.bal(c.W, ex.term(ev.eval(x.Args[1]).V), ex.term(ev.eval(x.Args[2]).V)), intT}
		case "supply":
			c := ev.ctxArg(x, 0)
			return tval{ex.supply(c.W, ex.term(ev.eval(x.Args[1]).V)), intT}
		case "modAddr":
			return tval{smt.App("modaddr", smt.Addr, ex.term(ev.eval(x.Args[0]).V)), nil}
		case "amt":
			return tval{ex.amtOf(ex.asCoins(ev.eval(x.Args[0]).V), ex.term(ev.eval(x.Args[1]).V)), intT}
		case "dec":
			return tval{smt.Mul(tE18(), ex.term(ev.eval(x.Args[0]).V)), intT}
		case "len":
			v := ex.force(ev.eval(x.Args[0]).V)
			sl := ex.forceSlice(v)
			return tval{smt.IntC(int64(sl.Len)), intT}
		case "ite":
			c := ex.term(ev.eval(x.Args[0]).V)
			return tval{smt.Ite(c, ex.term(ev.eval(x.Args[1]).V), ex.term(ev.eval(x.Args[2]).V)), intT}
		case "min":
			return tval{smt.Min(ex.term(ev.eval(x.Args[0]).V), ex.term(ev.eval(x.Args[1]).V)), intT}
		case "max":
			return tval{smt.Max(ex.term(ev.eval(x.Args[0]).V), ex.term(ev.eval(x.Args[1]).V)), intT}
		case "abs":
			return tval{smt.Abs(ex.term(ev.eval(x.Args[0]).V)), intT}
		case "bech32":
			return tval{bech32(ex.term(ev.eval(x.Args[0]).V)), types.Typ[types.String]}
		case "unbech32":
			return tval{unbech32(ex.term(ev.eval(x.Args[0]).V)), nil}
		case "decQuo":
			ex.specArith = true
			defer func() { ex.specArith = false }()
			return tval{ex.decQuoWith(ex.term(ev.eval(x.Args[0]).V), ex.term(ev.eval(x.Args[1]).V), rhe, "quo"), intT}
		case "decMul":
			return tval{ex.decMulWith(ex.term(ev.eval(x.Args[0]).V), ex.term(ev.eval(x.Args[1]).V), rhe, "mul"), intT}
		case "roundInt":
			return tval{rhe(ex.term(ev.eval(x.Args[0]).V)), intT}
		case "truncInt":
			return tval{truncE18(ex.term(ev.eval(x.Args[0]).V)), intT}
		case "fst", "snd":
			v := ev.eval(x.Args[0])
			tv, ok := v.V.(TupleV)
			if !ok {
				ev.fail(x, "not a tuple")
			}
			i := 0
			if id.Name == "snd" {
				i = 1
			}
			var t types.Type
			if tt, ok := v.T.(*types.Tuple); ok && i < tt.Len() {
				t = tt.At(i).Type()
			}
			return tval{tv[i], t}
		case "currentHeight":
			return tval{smt.Var("ctx!height", smt.Int), intT}
		case "currentTime":
			return tval{smt.Var("ctx!blocktime", smt.Int), intT}
		case "blockTime":
			return tval{ex.ctxTime(ev.ctxArg(x, 0)), intT}
		case "blockHeight":
			return tval{ex.ctxHeight(ev.ctxArg(x, 0)), intT}
		case "sumOver", "allOf", "anyOf", "firstWhere":
			// sumOver(xs, x, expr) ; allOf(xs, x, cond) ; anyOf(xs, x, cond) ;
			// firstWhere(xs, x, cond, expr, default)
			coll := ev.eval(x.Args[0])
			id2, ok := x.Args[1].(*ast.Ident)
			if !ok {
				ev.fail(x, "second argument must be an identifier")
			}
			// a collection read without forking from a table written on this path: the fold
			// of the choice is the choice of the folds
			if mv, isMerged := coll.V.(*mergedV); isMerged {
				foldOn := func(v Val) *smt.Term {
					nm := ex.freshName("spec!merged")
					saved, had := ev.vars[nm]
					ev.vars[nm] = tval{v, coll.T}
					args := append([]ast.Expr{ast.NewIdent(nm)}, x.Args[1:]...)
					r := ex.term(ev.eval(&ast.CallExpr{Fun: x.Fun, Args: args}).V)
					if had {
						ev.vars[nm] = saved
					} else {
						delete(ev.vars, nm)
					}
					return r
				}
				a, b := foldOn(mv.A), foldOn(mv.B)
				rt := intT
				if a.Sort == smt.Bool {
					rt = boolT
				}
				return tval{smt.Ite(mv.C, a, b), rt}
			}
			// Opaque reading: over a symbolic collection that this path never looked into,
			// the fold is an uninterpreted function of the collection's identity and of the
			// scalar variables the body mentions (definitions are revealed only where the
			// code itself iterates the collection, i.e. in the type-level proofs).
			if lz, isLazy := ex.force(coll.V).(*LazyV); isLazy && !ex.revealed(lz) {
				args := append([]*smt.Term{}, lz.Nm.Keys...)
				for _, fv := range freeIdents(x.Args[2:], id2.Name) {
					if v, ok := ev.lookup(fv); ok {
						if t, ok := v.V.(*smt.Term); ok {
							args = append(args, t)
						}
					}
				}
				srt := smt.Int
				if id.Name == "allOf" || id.Name == "anyOf" {
					srt = smt.Bool
				}
				var sb strings.Builder
				for _, a := range x.Args[1:] {
					writeExpr(&sb, a)
					sb.WriteString(";")
				}
				name := "spec!" + id.Name + "{" + sb.String() + "}@" + lz.Nm.Prefix
				rt := intT
				if srt == smt.Bool {
					rt = boolT
				}
				return tval{smt.App(name, srt, args...), rt}
			}
			sl := ex.forceSlice(ex.force(coll.V))
			var et types.Type
			if coll.T != nil {
				if st, ok := coll.T.Underlying().(*types.Slice); ok {
					et = st.Elem()
				}
			}
			saved, had := ev.vars[id2.Name]
			savedO, hadO := ev.oldVars[id2.Name]
			defer func() {
				if had {
					ev.vars[id2.Name] = saved
				} else {
					delete(ev.vars, id2.Name)
				}
				if hadO {
					ev.oldVars[id2.Name] = savedO
				} else {
					delete(ev.oldVars, id2.Name)
				}
			}()
			bind := func(i int) {
				v := tval{copyVal(ex.force(sl.Arr.Elems[sl.Off+i].V)), et}
				ev.vars[id2.Name] = v
				ev.oldVars[id2.Name] = v
			}
			switch id.Name {
			case "sumOver":
				r := smt.IntC(0)
				for i := 0; i < sl.Len; i++ {
					bind(i)
					r = smt.Add(r, ex.term(ev.eval(x.Args[2]).V))
				}
				return tval{r, intT}
			case "allOf":
				r := smt.True
				for i := 0; i < sl.Len; i++ {
					bind(i)
					r = smt.And(r, ex.term(ev.eval(x.Args[2]).V))
				}
				return tval{r, boolT}
			case "anyOf":
				r := smt.False
				for i := 0; i < sl.Len; i++ {
					bind(i)
					r = smt.Or(r, ex.term(ev.eval(x.Args[2]).V))
				}
				return tval{r, boolT}
			default:
				r := ex.term(ev.eval(x.Args[4]).V)
				for i := sl.Len - 1; i >= 0; i-- {
					bind(i)
					c := ex.term(ev.eval(x.Args[2]).V)
					r = smt.Ite(c, ex.term(ev.eval(x.Args[3]).V), r)
				}
				return tval{r, intT}
			}
		case "resultOf": // resultOf("Callee", n): result of the n-th contract-summarised call of Callee on this path
			name := ex.term(ev.eval(x.Args[0]).V).Name
			n := ex.term(ev.eval(x.Args[1]).V)
			nn, _ := n.ConstInt()
			want := fmt.Sprintf("%s#%d", name, nn.Int64())
			for label, r := range ex.callResults {
				if strings.HasSuffix(label, want) && (strings.Contains(label, "."+want) || strings.Contains(label, ")."+want) || strings.Contains(label, ":"+want)) {
					return tval{r.V, r.T}
				}
			}
			// not called on this path: an unconstrained value
			return tval{smt.Var(ex.freshName("nocall!"+want), smt.Int), nil}
		case "called": // called("Callee", n)
			name := ex.term(ev.eval(x.Args[0]).V).Name
			nn, _ := ex.term(ev.eval(x.Args[1]).V).ConstInt()
			want := fmt.Sprintf("%s#%d", name, nn.Int64())
			for label := range ex.callResults {
				if strings.HasSuffix(label, want) {
					return tval{smt.True, boolT}
				}
			}
			return tval{smt.False, boolT}
		case "bankTouched": // a bank operation (send/mint/burn/havoc) ran since entry
			c := ev.ctxArg(x, 0)
			return tval{smt.BoolC(len(c.W.Bank.Ops) != ev.oldBankOps()), boolT}
		case "isUser": // a user-controlled address: never a module, pool, position or order address (T6)
			return tval{smt.App("isuser", smt.Bool, ex.term(ev.eval(x.Args[0]).V)), boolT}
		case "keeperOf": // keeperOf("commitment"): the keeper value of module x/<name>
			name := ex.term(ev.eval(x.Args[0]).V).Name
			for _, p := range ex.Cfg.Prog.AllPackages() {
				if p.Pkg.Path() == elysMod+"/x/"+name+"/keeper" {
					if tn, ok := p.Pkg.Scope().Lookup("Keeper").(*types.TypeName); ok {
						return tval{ex.symbolic(tn.Type(), Namer{Prefix: "keeper!" + typeString(tn.Type())}), tn.Type()}
					}
				}
			}
			ev.fail(x, "no keeper package for module %s", name)
		case "unchanged": // unchanged(ctx): the whole world equals the pre-state world
			c := ev.ctxArg(x, 0)
			return tval{smt.BoolC(len(c.W.Log) == ev.oldLogLen()), boolT}
		case "wrote": // wrote(ctx): any state-changing primitive ran on this path
			c := ev.ctxArg(x, 0)
			return tval{smt.BoolC(len(c.W.Log) != ev.oldLogLen()), boolT}
		case "row": // row(ctx, "table-id", "pkg.Type", keys...): the stored row, read without forking
			c := ev.ctxArg(x, 0)
			id := ex.term(ev.eval(x.Args[1]).V).Name
			tn := ex.term(ev.eval(x.Args[2]).V).Name
			var from string
			if ev.pkg != nil {
				from = ev.pkg.Path()
			}
			rt, err := ex.Cfg.EnvRef.lookupType(from, tn)
			if err != nil {
				ev.fail(x, "%v", err)
			}
			var ks []*smt.Term
			for _, a := range x.Args[3:] {
				ks = append(ks, ex.keyTerms(ev.eval(a).V)...)
			}
			return tval{ex.rowMerged(c.W, id, ks, rt), rt}
		case "rowU64": // rowU64(ctx, "table-id", keys...): a stored big-endian counter, 0 when absent
			c := ev.ctxArg(x, 0)
			id := ex.term(ev.eval(x.Args[1]).V).Name
			var ks []*smt.Term
			for _, a := range x.Args[2:] {
				ks = append(ks, ex.keyTerms(ev.eval(a).V)...)
			}
			v := ex.rowMerged(c.W, id, ks, types.Typ[types.Uint64]).(*smt.Term)
			return tval{smt.Ite(ex.hasTerm(c.W, id, ks), v, smt.IntC(0)), types.Typ[types.Uint64]}
		case "has": // has(ctx, "table-id", keys...)
			c := ev.ctxArg(x, 0)
			id := ex.term(ev.eval(x.Args[1]).V).Name
			var ks []*smt.Term
			for _, a := range x.Args[2:] {
				ks = append(ks, ex.keyTerms(ev.eval(a).V)...)
			}
			return tval{ex.hasTerm(c.W, id, ks), boolT}
		}
		if d, ok := ev.specs.Defines[id.Name]; ok {
			if len(d.Params) != len(x.Args) {
				ev.fail(x, "define %s expects %d arguments", d.Name, len(d.Params))
			}
			saved := map[string]*tval{}
			savedOld := map[string]*tval{}
			for i, p := range d.Params {
				// evaluate the argument in both modes when it is the context
				av := ev.eval(x.Args[i])
				if ov, ok := ev.vars[p]; ok {
					o := ov
					saved[p] = &o
				} else {
					saved[p] = nil
				}
				if ov, ok := ev.oldVars[p]; ok {
					o := ov
					savedOld[p] = &o
				} else {
					savedOld[p] = nil
				}
				ev.vars[p] = av
				if ev.inOld {
					ev.oldVars[p] = av
				} else if _, isCtx := av.V.(*CtxV); isCtx {
					// keep the old binding of a context parameter for old(...) inside the body
					if id2, ok := x.Args[i].(*ast.Ident); ok {
						if o, ok := ev.oldVars[id2.Name]; ok {
							ev.oldVars[p] = o
						}
					}
				} else {
					ev.oldVars[p] = av
				}
			}
			// the body is read in the package that declares the define
			savedPkg := ev.pkg
			if d.Pkg != "" {
				for _, pp := range ex.Cfg.Prog.AllPackages() {
					if pp.Pkg.Path() == d.Pkg {
						ev.pkg = pp.Pkg
					}
				}
			}
			r := ev.evalSpecVal(d.Body)
			ev.pkg = savedPkg
			for p, v := range saved {
				if v == nil {
					delete(ev.vars, p)
				} else {
					ev.vars[p] = *v
				}
			}
			for p, v := range savedOld {
				if v == nil {
					delete(ev.oldVars, p)
				} else {
					ev.oldVars[p] = *v
				}
			}
			return r
		}
		for _, a := range ex.Cfg.Aggs {
			if a.Name == id.Name {
				c := ev.ctxArg(x, 0)
				var g []*smt.Term
				for _, ge := range x.Args[1:] {
					g = append(g, ex.term(ev.eval(ge).V))
				}
				if len(g) != len(a.Params) {
					ev.fail(x, "aggregate %s expects %d parameters after the context", a.Name, len(a.Params))
				}
				return tval{ex.aggValue(c.W, a.Name, g), intT}
			}
		}
		// plain function of the contract's package
		if ev.pkg != nil {
			if obj, ok := ev.pkg.Scope().Lookup(id.Name).(*types.Func); ok {
				return ev.callFunc(x, ev.objVal(x, obj).V.(*ClosureV).Fn, nil)
			}
		}
		ev.fail(x, "unknown function")
	}
	sel, ok := x.Fun.(*ast.SelectorExpr)
	if !ok {
		ev.fail(x, "unsupported call form")
	}
	// package function?
	if id, ok := sel.X.(*ast.Ident); ok {
		if _, isVar := ev.lookup(id.Name); !isVar {
			if ev.importedPkg(id.Name) != nil {
				if p := ev.importedPkg(id.Name, sel.Sel.Name); p != nil {
					if obj, ok := p.Scope().Lookup(sel.Sel.Name).(*types.Func); ok {
						fv := ev.objVal(x, obj)
						return ev.callFunc(x, fv.V.(*ClosureV).Fn, nil)
					}
				}
				ev.fail(x, "unknown package function")
			}
		}
	}
	// method call on a value
	recv := ev.eval(sel.X)
	if recv.T == nil {
		ev.fail(x, "method call on untyped value")
	}
	fn, needPtr := ev.findMethod(recv.T, sel.Sel.Name)
	if fn == nil {
		ev.fail(x, "method %s not found on %s", sel.Sel.Name, recv.T)
	}
	rv := recv.V
	if needPtr {
		if _, isPtr := ex.force(rv).(*PtrV); !isPtr {
			rv = &PtrV{C: &Cell{V: copyVal(ex.force(rv)), T: recv.T, Name: "spec-tmp"}, T: recv.T}
		}
	} else if p, isPtr := ex.force(rv).(*PtrV); isPtr {
		if _, recvIsPtr := fn.Signature.Recv().Type().(*types.Pointer); !recvIsPtr {
			rv = ex.load(p)
		}
	}
	return ev.callFunc(x, fn, &rv)
}

func (ev *evalEnv) oldBankOps() int {
	for _, v := range ev.oldVars {
		if cv, ok := v.V.(*CtxV); ok {
			return len(cv.W.Bank.Ops)
		}
	}
	return 0
}

func (ev *evalEnv) oldLogLen() int {
	if c, ok := ev.oldVars["ctx"]; ok {
		if cv, ok := c.V.(*CtxV); ok {
			return len(cv.W.Log)
		}
	}
	for _, v := range ev.oldVars {
		if cv, ok := v.V.(*CtxV); ok {
			return len(cv.W.Log)
		}
	}
	return 0
}

func (ev *evalEnv) findMethod(t types.Type, name string) (*ssa.Function, bool) {
	prog := ev.ex.Cfg.Prog
	base := t
	if p, ok := t.(*types.Pointer); ok {
		base = p.Elem()
	}
	for _, tt := range []types.Type{base, types.NewPointer(base)} {
		ms := prog.MethodSets.MethodSet(tt)
		for i := 0; i < ms.Len(); i++ {
			if ms.At(i).Obj().Name() == name {
				fn := prog.MethodValue(ms.At(i))
				if fn == nil {
					continue
				}
				_, ptrRecv := fn.Signature.Recv().Type().(*types.Pointer)
				return fn, ptrRecv
			}
		}
	}
	return nil, false
}

func (ev *evalEnv) callFunc(x *ast.CallExpr, fn *ssa.Function, recv *Val) tval {
	ex := ev.ex
	var args []Val
	if recv != nil {
		args = append(args, *recv)
	}
	for _, a := range x.Args {
		args = append(args, ev.eval(a).V)
	}
	ex.inSpec++
	defer func() { ex.inSpec-- }()
	r := ex.callFunction(nil, fn, args, nil, nil, nil)
	res := fn.Signature.Results()
	switch res.Len() {
	case 0:
		return tval{nil, nil}
	case 1:
		return tval{r, res.At(0).Type()}
	}
	return tval{r, res}
}

func (ev *evalEnv) ctxArg(x *ast.CallExpr, i int) *CtxV {
	if i >= len(x.Args) {
		ev.fail(x, "missing context argument")
	}
	v := ev.eval(x.Args[i])
	c, ok := v.V.(*CtxV)
	if !ok {
		ev.fail(x, "argument %d is not a context", i)
	}
	return c
}

// freeIdents lists the identifiers mentioned in the expressions, except the bound one, in
// order of first occurrence.
func freeIdents(es []ast.Expr, bound string) []string {
	var out []string
	seen := map[string]bool{bound: true}
	for _, e := range es {
		ast.Inspect(e, func(n ast.Node) bool {
			switch x := n.(type) {
			case *ast.SelectorExpr:
				// only the root of a selector chain is a variable
				ast.Inspect(x.X, func(m ast.Node) bool {
					if id, ok := m.(*ast.Ident); ok && !seen[id.Name] {
						seen[id.Name] = true
						out = append(out, id.Name)
					}
					return true
				})
				return false
			case *ast.CallExpr:
				for _, a := range x.Args {
					out = append(out, freeIdentsSeen([]ast.Expr{a}, seen)...)
				}
				if sel, ok := x.Fun.(*ast.SelectorExpr); ok {
					out = append(out, freeIdentsSeen([]ast.Expr{sel.X}, seen)...)
				}
				return false
			case *ast.Ident:
				if !seen[x.Name] {
					seen[x.Name] = true
					out = append(out, x.Name)
				}
			}
			return true
		})
	}
	return out
}

func freeIdentsSeen(es []ast.Expr, seen map[string]bool) []string {
	var out []string
	for _, e := range es {
		ast.Inspect(e, func(n ast.Node) bool {
			if id, ok := n.(*ast.Ident); ok && !seen[id.Name] {
				seen[id.Name] = true
				out = append(out, id.Name)
			}
			return true
		})
	}
	return out
}
