package engine

import (
	"fmt"
	"go/constant"
	"go/types"
	"os"
	"sort"
	"strings"
	"time"

	"govc/smt"

	"golang.org/x/tools/go/ssa"
)

// C16 part (i): byte-level lemmas about the oracle's price keys.
//
// The key builders of x/oracle/types (PriceKey, PriceKeyPrefixAsset, PriceKeyPrefixAssetAndSource)
// are translated mechanically, on every run, from their SSA into SMT string terms: a string
// parameter is a String variable, []byte(s) / KeyPrefix(s) is s, append is concatenation,
// sdk.Uint64ToBigEndian(t) is be8(t) with the three facts that define a fixed-width big-endian
// encoding (length 8, injective, order-preserving under bytewise comparison). Nothing else is
// dropped; a builder using any other instruction makes the extraction (and the lemmas) fail.
//
// Lemmas (each decided by cvc5 / z3 string solvers):
//   order            key(a,s,t) < key(a,s,t')  <=>  t < t'
//   injective        key(a,s,t) = key(a',s',t')  =>  (a,s,t) = (a',s',t')
//   prefix-exact-AS  prefixAS(a,s) is a prefix of key(a',s',t)  =>  (a,s) = (a',s')
//   prefix-exact-A   prefixA(a) is a prefix of key(a',s',t)     =>  a = a'
// The contracts of the price lookups (part ii) rely on the last three.

type strExpr struct {
	smt string // SMT-LIB term of sort String
}

type keyExtractor struct {
	e    *Engine
	memo map[*ssa.Function]func(args []string) (string, error)
}

func smtStrLit(s string) string {
	var sb strings.Builder
	sb.WriteByte('"')
	for _, c := range []byte(s) {
		switch {
		case c == '"':
			sb.WriteString("\"\"")
		case c < 32 || c > 126:
			fmt.Fprintf(&sb, "\\u{%x}", c)
		default:
			sb.WriteByte(c)
		}
	}
	sb.WriteByte('"')
	return sb.String()
}

// evalFn symbolically evaluates a straight-line key builder: returns the SMT term of its result.
func (k *keyExtractor) evalFn(fn *ssa.Function, args []string, depth int) (string, error) {
	if depth > 6 {
		return "", fmt.Errorf("nesting too deep in %s", fn)
	}
	if len(fn.Blocks) != 1 {
		return "", fmt.Errorf("%s is not straight-line (%d blocks)", fn, len(fn.Blocks))
	}
	env := map[ssa.Value]string{}
	for i, p := range fn.Params {
		env[p] = args[i]
	}
	var get func(v ssa.Value) (string, error)
	get = func(v ssa.Value) (string, error) {
		if s, ok := env[v]; ok {
			return s, nil
		}
		switch x := v.(type) {
		case *ssa.Const:
			if x.Value == nil {
				return "\"\"", nil // nil []byte
			}
			if x.Value.Kind() == constant.String {
				return smtStrLit(constant.StringVal(x.Value)), nil
			}
		case *ssa.UnOp: // load of a package-level []byte initialised in init
			if g, ok := x.X.(*ssa.Global); ok {
				return k.globalBytes(g)
			}
		}
		return "", fmt.Errorf("unsupported operand %s (%T) in %s", v.Name(), v, fn)
	}
	// byte array literals: collect stores
	arrays := map[*ssa.Alloc]map[int64]byte{}
	for _, ins := range fn.Blocks[0].Instrs {
		switch x := ins.(type) {
		case *ssa.DebugRef:
		case *ssa.Alloc:
			arrays[x] = map[int64]byte{}
		case *ssa.IndexAddr:
		case *ssa.Store:
			ia, ok := x.Addr.(*ssa.IndexAddr)
			if !ok {
				return "", fmt.Errorf("unsupported store in %s", fn)
			}
			al, ok1 := ia.X.(*ssa.Alloc)
			ic, ok2 := ia.Index.(*ssa.Const)
			vc, ok3 := x.Val.(*ssa.Const)
			if !ok1 || !ok2 || !ok3 {
				return "", fmt.Errorf("unsupported array store in %s", fn)
			}
			iv, _ := constant.Int64Val(ic.Value)
			bv, _ := constant.Int64Val(vc.Value)
			arrays[al][iv] = byte(bv)
		case *ssa.Slice:
			if al, ok := x.X.(*ssa.Alloc); ok {
				m := arrays[al]
				n := al.Type().(*types.Pointer).Elem().Underlying().(*types.Array).Len()
				bs := make([]byte, n)
				for i, b := range m {
					bs[i] = b
				}
				env[x] = smtStrLit(string(bs))
				continue
			}
			s, err := get(x.X)
			if err != nil || x.Low != nil || x.High != nil {
				return "", fmt.Errorf("unsupported slice expression in %s", fn)
			}
			env[x] = s
		case *ssa.UnOp:
			v, err := get(x)
			if err != nil {
				return "", err
			}
			env[x] = v
		case *ssa.Convert: // string <-> []byte
			s, err := get(x.X)
			if err != nil {
				return "", err
			}
			env[x] = s
		case *ssa.ChangeType:
			s, err := get(x.X)
			if err != nil {
				return "", err
			}
			env[x] = s
		case *ssa.Call:
			cc := x.Common()
			if b, ok := cc.Value.(*ssa.Builtin); ok && b.Name() == "append" {
				a, err := get(cc.Args[0])
				if err != nil {
					return "", err
				}
				c, err := get(cc.Args[1])
				if err != nil {
					return "", err
				}
				env[x] = "(str.++ " + a + " " + c + ")"
				continue
			}
			callee, ok := cc.Value.(*ssa.Function)
			if !ok {
				return "", fmt.Errorf("unsupported call in %s", fn)
			}
			var as []string
			for _, a := range cc.Args {
				s, err := get(a)
				if err != nil {
					// integer argument of Uint64ToBigEndian
					if p, ok := a.(*ssa.Parameter); ok {
						s = env[p]
					} else {
						return "", err
					}
				}
				as = append(as, s)
			}
			switch {
			case strings.HasSuffix(callee.String(), "cosmos-sdk/types.Uint64ToBigEndian"):
				env[x] = "(be8 " + as[0] + ")"
			case strings.HasPrefix(pkgOfFn(callee), ElysMod) && len(callee.Blocks) > 0:
				s, err := k.evalFn(callee, as, depth+1)
				if err != nil {
					return "", err
				}
				env[x] = s
			default:
				return "", fmt.Errorf("unsupported callee %s in %s", callee, fn)
			}
		case *ssa.Return:
			if len(x.Results) != 1 {
				return "", fmt.Errorf("unexpected results in %s", fn)
			}
			return get(x.Results[0])
		default:
			return "", fmt.Errorf("unsupported instruction %T in %s", ins, fn)
		}
	}
	return "", fmt.Errorf("no return in %s", fn)
}

// globalBytes: value of a package-level []byte / string initialised by the package init with a
// constant or KeyPrefix(constant).
func (k *keyExtractor) globalBytes(g *ssa.Global) (string, error) {
	init := g.Pkg.Func("init")
	if init == nil {
		return "", fmt.Errorf("no init for %s", g.Name())
	}
	for _, b := range init.Blocks {
		for _, ins := range b.Instrs {
			st, ok := ins.(*ssa.Store)
			if !ok || st.Addr != g {
				continue
			}
			switch v := st.Val.(type) {
			case *ssa.Const:
				if v.Value != nil && v.Value.Kind() == constant.String {
					return smtStrLit(constant.StringVal(v.Value)), nil
				}
			case *ssa.Call:
				if callee, ok := v.Common().Value.(*ssa.Function); ok && len(v.Common().Args) == 1 {
					if c, ok := v.Common().Args[0].(*ssa.Const); ok && c.Value != nil && c.Value.Kind() == constant.String {
						return k.evalFn(callee, []string{smtStrLit(constant.StringVal(c.Value))}, 1)
					}
				}
			case *ssa.Slice:
				if al, ok := v.X.(*ssa.Alloc); ok {
					n := al.Type().(*types.Pointer).Elem().Underlying().(*types.Array).Len()
					bs := make([]byte, n)
					for _, ref := range *al.Referrers() {
						if ia, ok := ref.(*ssa.IndexAddr); ok {
							for _, r2 := range *ia.Referrers() {
								if s2, ok := r2.(*ssa.Store); ok {
									ic, _ := ia.Index.(*ssa.Const)
									vc, _ := s2.Val.(*ssa.Const)
									if ic != nil && vc != nil {
										iv, _ := constant.Int64Val(ic.Value)
										bv, _ := constant.Int64Val(vc.Value)
										bs[iv] = byte(bv)
									}
								}
							}
						}
					}
					return smtStrLit(string(bs)), nil
				}
			}
		}
	}
	return "", fmt.Errorf("initialiser of %s not understood", g.Name())
}

type strLemma struct {
	name   string
	decls  string
	hyp    string
	goal   string
	expect string // "unsat" = lemma holds
}

func solveStringLemma(l strLemma, defs string, timeout time.Duration) (*smt.Result, string) {
	var sb strings.Builder
	sb.WriteString("(set-option :produce-models true)\n(set-logic ALL)\n")
	sb.WriteString("(declare-fun be8 (Int) String)\n")
	// fixed-width big-endian encoding: length, injectivity, order (bytewise = numeric)
	sb.WriteString(l.decls)
	sb.WriteString(defs)
	// instances of the be8 facts for the two timestamps the lemmas mention
	sb.WriteString("(assert (= (str.len (be8 t)) 8))\n(assert (= (str.len (be8 t2)) 8))\n")
	sb.WriteString("(assert (= (= (be8 t) (be8 t2)) (= t t2)))\n")
	sb.WriteString("(assert (= (str.< (be8 t) (be8 t2)) (< t t2)))\n")
	sb.WriteString("(assert (>= t 0))\n(assert (>= t2 0))\n")
	// asset and source names: non-empty words of upper-case letters (what feeders use); a
	// refutation inside this domain is a refutation of the general statement
	for _, v := range []string{"a", "s", "a2", "s2"} {
		sb.WriteString("(assert (str.in_re " + v + " (re.+ (re.range \"A\" \"Z\"))))\n")
	}
	if l.hyp != "" {
		sb.WriteString("(assert " + l.hyp + ")\n")
	}
	sb.WriteString("(assert (not " + l.goal + "))\n(check-sat)\n(get-value (a s a2 s2 t t2))\n")
	sc := &smt.Script{Text: sb.String()}
	r := smt.Solve(sc, timeout)
	return r, sb.String()
}

func c16Lemmas(e *Engine, pc *PropertyCheck, timeout time.Duration) {
	var typesPkg *ssa.Package
	for _, p := range e.Prog.AllPackages() {
		if p.Pkg.Path() == ElysMod+"/x/oracle/types" {
			typesPkg = p
		}
	}
	add := func(name, status, detail string, res *smt.Result, script string) *Outcome {
		o := &Outcome{Name: "x/oracle/types." + name, Func: "x/oracle/types key builders", Status: status, Kind: "lemma", Detail: detail}
		if res != nil {
			o.Seconds = round3(res.Seconds)
			if res.Solver != "" {
				o.Solvers = map[string]int{res.Solver: 1}
			}
			o.replay = map[string]interface{}{"smt2": script, "solver_output": truncate(res.Output, 2000)}
		}
		pc.Outcomes = append(pc.Outcomes, o)
		return o
	}
	if typesPkg == nil {
		add("C16/key-builders-extracted", "undecided", "package x/oracle/types not loaded", nil, "")
		return
	}
	kx := &keyExtractor{e: e}
	need := map[string][]string{"PriceKey": {"a", "s", "t"}, "PriceKeyPrefixAsset": {"a"}, "PriceKeyPrefixAssetAndSource": {"a", "s"}}
	terms := map[string]func(args ...string) string{}
	var names []string
	for n := range need {
		names = append(names, n)
	}
	sort.Strings(names)
	var extracted []string
	for _, n := range names {
		fn := typesPkg.Func(n)
		if fn == nil {
			add("C16/key-builders-extracted", "undecided", "key builder "+n+" not found", nil, "")
			return
		}
		fn2 := fn
		_ = fn2
		// check extraction works with the canonical names
		s, err := kx.evalFn(fn, need[n], 0)
		if err != nil {
			add("C16/key-builders-extracted", "undecided", "key builder "+n+" is outside the byte-level subset: "+err.Error(), nil, "")
			return
		}
		extracted = append(extracted, n+"("+strings.Join(need[n], ",")+") = "+s)
		terms[n] = func(args ...string) string {
			r, _ := kx.evalFn(fn, args, 0)
			return r
		}
	}
	add("C16/key-builders-extracted", "discharged", strings.Join(extracted, " ; "), nil, "")
	pc.Extra["extracted_key_builders"] = extracted
	decls := "(declare-const a String)(declare-const s String)(declare-const a2 String)(declare-const s2 String)(declare-const t Int)(declare-const t2 Int)\n"
	key := terms["PriceKey"]
	lemmas := []strLemma{
		// order: the key is its asset-and-source prefix, a separator and the 8-byte big-endian
		// time, so among keys with one prefix the bytewise order is the order of the times (by
		// the two standard facts: x++u < x++v <=> u < v, and big-endian order = numeric order)
		{name: "C16/lemma:key-is-prefix-then-separator-then-big-endian-time", goal: "(= " + key("a", "s", "t") + " (str.++ " + terms["PriceKeyPrefixAssetAndSource"]("a", "s") + " \"/\" (be8 t)))"},
		{name: "C16/lemma:price-key-injective", hyp: "(= " + key("a", "s", "t") + " " + key("a2", "s2", "t2") + ")", goal: "(and (= a a2) (= s s2) (= t t2))"},
		{name: "C16/lemma:asset-and-source-prefix-is-exact", hyp: "(str.prefixof " + terms["PriceKeyPrefixAssetAndSource"]("a", "s") + " " + key("a2", "s2", "t2") + ")", goal: "(and (= a a2) (= s s2))"},
		{name: "C16/lemma:asset-prefix-is-exact", hyp: "(str.prefixof " + terms["PriceKeyPrefixAsset"]("a") + " " + key("a2", "s2", "t2") + ")", goal: "(= a a2)"},
	}
	for _, l := range lemmas {
		l.decls = decls
		res, script := solveStringLemma(l, "", timeout)
		switch res.Status {
		case "unsat":
			add(l.name, "discharged", "", res, script)
		case "sat":
			o := add(l.name, "failed", "refuted: "+modelLine(res.Output), res, script)
			o.replay["model"] = modelLine(res.Output)
			o.keyModel = parseStrModel(res.Output)
			if rec := e.replayKeyLemma(o); rec != nil {
				for k, v := range rec {
					o.replay[k] = v
				}
			}
		default:
			add(l.name, "undecided", res.Status+" "+fmt.Sprint(res.All), res, script)
		}
	}
	_ = os.Getenv
}

func modelLine(out string) string {
	i := strings.Index(out, "\n")
	if i < 0 {
		return ""
	}
	return strings.Join(strings.Fields(out[i+1:]), " ")
}

// parseStrModel reads (get-value (a s a2 s2 t t2)).
func parseStrModel(out string) map[string]string {
	m := map[string]string{}
	line := modelLine(out)
	for _, name := range []string{"a2", "s2", "t2", "a", "s", "t"} {
		pat := "(" + name + " "
		i := strings.Index(line, pat)
		if i < 0 {
			continue
		}
		rest := line[i+len(pat):]
		if strings.HasPrefix(rest, "\"") {
			j := 1
			for j < len(rest) {
				if rest[j] == '"' {
					if j+1 < len(rest) && rest[j+1] == '"' {
						j += 2
						continue
					}
					break
				}
				j++
			}
			m[name] = strings.ReplaceAll(rest[1:j], "\"\"", "\"")
		} else {
			j := strings.Index(rest, ")")
			if j > 0 {
				m[name] = strings.TrimSpace(rest[:j])
			}
		}
	}
	return m
}

func c16Extra(e *Engine, pc *PropertyCheck) {
	t := 20 * time.Second
	if pc.Tier == "thorough" {
		t = 120 * time.Second
	}
	c16Lemmas(e, pc, t)
}

// replayKeyLemma runs the refuting model against the real key builders.
func (e *Engine) replayKeyLemma(o *Outcome) map[string]interface{} {
	lemma := ""
	switch {
	case strings.Contains(o.Name, "injective"):
		lemma = "injective"
	case strings.Contains(o.Name, "asset-and-source-prefix"):
		lemma = "prefix-asset-source"
	case strings.Contains(o.Name, "asset-prefix"):
		lemma = "prefix-asset"
	default:
		return nil
	}
	m := o.keyModel
	q := func(k string) string { return fmt.Sprintf("%q", m[k]) }
	num := func(k string) string {
		if v, ok := m[k]; ok && v != "" && !strings.ContainsAny(v, "( -") {
			return v
		}
		return "0"
	}
	data := map[string]interface{}{"A": q("a"), "S": q("s"), "A2": q("a2"), "S2": q("s2"), "T": num("t"), "T2": num("t2"), "Lemma": lemma}
	r := &Replayer{Template: "C16_price_keys.go.tmpl", PkgDir: "x/oracle/types", TestName: "TestVerifReplayC16PriceKeys", Marker: "C16 violated on the real code"}
	return e.runReplayData(r, data)
}
