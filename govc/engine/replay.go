package engine

import (
	"context"
	"encoding/json"
	"fmt"
	"math/big"
	"os"
	"os/exec"
	"path/filepath"
	"regexp"
	"sort"
	"strings"
	"text/template"
	"time"
)

// Replayer turns a solver model of a failed obligation into the data of a Go test template
// that exercises the real code (injected with `go test -overlay`; /repo is not written to).
type Replayer struct {
	Obligation string // exact obligation name, or prefix ending in "*"
	Template   string // file under /verif/replay/templates
	PkgDir     string // package directory inside the repository
	TestName   string
	Marker     string // text the test prints when the property is violated on the real code
	Data       func(model map[string]string, goal string) (map[string]interface{}, error)
}

type bigInt = big.Int

var replayers []*Replayer

func registerReplay(r *Replayer) { replayers = append(replayers, r) }

func findReplayer(name string) *Replayer {
	for _, r := range replayers {
		if r.Obligation == name || (strings.HasSuffix(r.Obligation, "*") && strings.HasPrefix(name, strings.TrimSuffix(r.Obligation, "*"))) {
			return r
		}
	}
	return nil
}

// modelLookup finds the value of the first model entry whose key matches the regexp.
func modelLookup(model map[string]string, pattern string) (string, bool) {
	re := regexp.MustCompile(pattern)
	keys := make([]string, 0, len(model))
	for k := range model {
		keys = append(keys, k)
	}
	sort.Strings(keys)
	for _, k := range keys {
		if re.MatchString(k) {
			return model[k], true
		}
	}
	return "", false
}

func intOr(model map[string]string, pattern, def string) string {
	v, ok := modelLookup(model, pattern)
	if !ok {
		return def
	}
	v = strings.TrimSpace(v)
	if regexp.MustCompile(`^-?\d+$`).MatchString(v) {
		return v
	}
	return def
}

// RunReplay executes the replay of one failed obligation; returns a JSON-able record.
func (e *Engine) RunReplay(o *Outcome) map[string]interface{} {
	if o.fail == nil || o.fail.Result == nil || o.fail.Result.Model == nil || o.fail.Failing == nil {
		return nil
	}
	r := findReplayer(o.Name)
	if r == nil {
		return nil
	}
	data, err := r.Data(o.fail.Result.Model, o.fail.Failing.Goal.String())
	if err != nil {
		return map[string]interface{}{"template": r.Template, "error": "model does not determine the replay inputs: " + err.Error()}
	}
	return e.runReplayData(r, data)
}

// runReplayData fills the template and runs it against the real code.
func (e *Engine) runReplayData(r *Replayer, data map[string]interface{}) map[string]interface{} {
	rec := map[string]interface{}{"template": r.Template, "test": r.TestName, "package": r.PkgDir}
	rec["inputs"] = data
	tmplPath := filepath.Join(VerifDir(), "replay", "templates", r.Template)
	if _, err := os.Stat(tmplPath); err != nil {
		tmplPath = filepath.Join("/verif", "replay", "templates", r.Template)
	}
	tb, err := os.ReadFile(tmplPath)
	if err != nil {
		rec["error"] = err.Error()
		return rec
	}
	tm, err := template.New("t").Delims("<<", ">>").Parse(string(tb))
	if err != nil {
		rec["error"] = err.Error()
		return rec
	}
	dir, err := os.MkdirTemp("", "govc-replay-")
	if err != nil {
		rec["error"] = err.Error()
		return rec
	}
	defer os.RemoveAll(dir)
	src := filepath.Join(dir, "replay_test.go")
	f, _ := os.Create(src)
	if err := tm.Execute(f, data); err != nil {
		f.Close()
		rec["error"] = err.Error()
		return rec
	}
	f.Close()
	target := filepath.Join(e.Repo, r.PkgDir, "zz_verif_replay_test.go")
	ov, _ := json.Marshal(map[string]interface{}{"Replace": map[string]string{target: src}})
	ovPath := filepath.Join(dir, "overlay.json")
	os.WriteFile(ovPath, ov, 0o644)
	ctx, cancel := context.WithTimeout(context.Background(), 15*time.Minute)
	defer cancel()
	cmd := exec.CommandContext(ctx, "go", "test", "-overlay", ovPath, "-vet=off", "-count=1", "-timeout", "600s", "-run", runPattern(r.TestName), "./"+r.PkgDir)
	cmd.Dir = e.Repo
	cmd.Env = append(os.Environ(), "GOFLAGS=-mod=mod", "GOPROXY=off", "GOSUMDB=off", "GOTOOLCHAIN=local")
	start := time.Now()
	out, runErr := cmd.CombinedOutput()
	rec["seconds"] = round3(time.Since(start).Seconds())
	rec["output"] = truncate(string(out), 6000)
	src2, _ := os.ReadFile(src)
	rec["test_source"] = string(src2)
	switch {
	case runErr == nil:
		rec["real_code_replay"] = "passed: the real code does NOT violate the property on this input (the model exposes a gap in a contract or in the encoding)"
		rec["confirmed"] = false
	case strings.Contains(string(out), r.Marker):
		rec["real_code_replay"] = "failed as predicted: the real code violates the property on this input"
		rec["confirmed"] = true
	default:
		rec["real_code_replay"] = fmt.Sprintf("inconclusive: the replay test did not reach its assertion (%v)", runErr)
		rec["confirmed"] = false
	}
	return rec
}

func init() {
	// C11: fixed scenarios on the real keepers (no model values needed)
	registerReplay(&Replayer{
		Obligation: "x/perpetual/keeper.(Keeper).Open/call:PerpetualHooks.AfterPerpetualPositionOpen#1/pre:*",
		Template:   "C11_stale_pool_after_open.go.tmpl", PkgDir: "x/accountedpool/keeper", TestName: "TestVerifReplayC11StaleAmmPoolAfterOpen",
		Marker: "C11 violated on the real code",
		Data:   func(m map[string]string, goal string) (map[string]interface{}, error) { return map[string]interface{}{}, nil },
	})
	registerReplay(&Replayer{
		Obligation: "x/perpetual/keeper.(Keeper).CheckAndLiquidateUnhealthyPosition/ensures:C11/accounted-pool-refreshed-after-settlement",
		Template:   "C11_settlement_without_hook.go.tmpl", PkgDir: "x/accountedpool/keeper", TestName: "TestVerifReplayC11SettlementWithoutHook",
		Marker: "C11 violated on the real code",
		Data:   func(m map[string]string, goal string) (map[string]interface{}, error) { return map[string]interface{}{}, nil },
	})
	// C09: a short position whose custody went negative through funding fees is closed partly by its
	// owner: Repay removes it while the pool keeps the unclosed share (fixed message-level scenario
	// written by a sub-agent from the failing obligation's description; no model values needed)
	registerReplay(&Replayer{
		Obligation: "x/perpetual/keeper.(Keeper).Repay/ensures:C09/a-removed-position-has-nothing-left",
		Template:   "C09_partial_close_of_drained_short.go.tmpl", PkgDir: "x/perpetual/keeper", TestName: "TestKeeperSuite/TestC09PartialCloseOfDrainedShortLeavesPoolBooksFundingVariation",
		Marker: "C09 violated on the real code",
		Data:   func(m map[string]string, goal string) (map[string]interface{}, error) { return map[string]interface{}{}, nil },
	})
	// C08: a liquidation that fails after the pool total was written (the reward payout fails);
	// fixed scenario, no model values needed
	for _, fn := range []string{"CheckAndLiquidateUnhealthyPosition", "CheckAndCloseAtStopLoss"} {
		registerReplay(&Replayer{
			Obligation: "x/leveragelp/keeper.(Keeper)." + fn + "/ensures:C08/*",
			Template:   "C08_failed_liquidation.go.tmpl", PkgDir: "x/leveragelp/keeper", TestName: "TestKeeperSuite/TestVerifReplayC08FailedLiquidationLeavesBooksApart",
			Marker: "C08 violated on the real code",
			Data: func(m map[string]string, goal string) (map[string]interface{}, error) {
				return map[string]interface{}{"Pending": "1000000"}, nil
			},
		})
	}
	// C20: one large limit-open order whose own borrow takes pool health below the open
	// threshold: perpetual.Open fails after moving the collateral (fixed scenario with default
	// params, found by a sub-agent on the real code; no model values needed).
	registerReplay(&Replayer{
		Obligation: "x/tradeshield/keeper.(Keeper).ExecuteLimitOpenOrder/ensures:C20/funds-conserved-on-failed-open",
		Template:   "C20_partial_open.go.tmpl", PkgDir: "x/tradeshield/keeper", TestName: "TestKeeperSuite/TestC20PartialOpenOnFailedLimitOpenExecution",
		Marker: "C20 violated on the real code",
		Data:   func(m map[string]string, goal string) (map[string]interface{}, error) { return map[string]interface{}{}, nil },
	})
	// C13: the end-block collection must keep in the reward module what it reports for the LPs (fixed
	// scenarios with default parameters; the model's amounts are not needed)
	registerReplay(&Replayer{
		Obligation: "x/masterchef/keeper.(Keeper).CollectPerpRevenue/ensures:C13/perpetual-revenue-reported-for-lps-is-kept-by-the-reward-module",
		Template:   "C13_perp_revenue_paid_from_rewards.go.tmpl", PkgDir: "x/masterchef/keeper", TestName: "TestKeeperSuite/TestVerifReplayC13PerpRevenuePaidFromRewards",
		Marker: "C13 violated on the real code",
		Data: func(m map[string]string, goal string) (map[string]interface{}, error) {
			return map[string]interface{}{"Revenue": "3000", "Already": "100000"}, nil
		},
	})
	registerReplay(&Replayer{
		Obligation: "x/masterchef/keeper.(Keeper).CollectDEXRevenue/invariant:C13/lps-total-so-far-is-kept-by-the-reward-module/kept-by-an-iteration",
		Template:   "C13_dex_revenue_protocol_share.go.tmpl", PkgDir: "x/masterchef/keeper", TestName: "TestKeeperSuite/TestVerifReplayC13DexRevenueProtocolShare",
		Marker: "C13 violated on the real code",
		Data: func(m map[string]string, goal string) (map[string]interface{}, error) {
			return map[string]interface{}{"Revenue": "10000"}, nil
		},
	})
	// C18: a dust pool with Eden rewards enabled makes the LP-reward step mint 0ueden (fixed scenario)
	registerReplay(&Replayer{
		Obligation: "x/masterchef/keeper.(Keeper).UpdateLPRewards/call:(Keeper).MintCoins#*",
		Template:   "C18_dust_eden_allocation.go.tmpl", PkgDir: "x/masterchef/keeper", TestName: "TestKeeperSuite/TestVerifReplayC18DustEdenAllocation",
		Marker: "C18 violated on the real code",
		Data: func(m map[string]string, goal string) (map[string]interface{}, error) {
			return map[string]interface{}{"Elys": "100", "Usdc": "10", "EdenPerYear": "9999999999999"}, nil
		},
	})
	// C18: the end-block fee conversion fails the block while a price is missing (fixed scenario)
	registerReplay(&Replayer{
		Obligation: "x/masterchef/keeper.(Keeper).ConvertGasFeesToUsdc/ensures:C18/fee-conversion-does-not-fail-the-block",
		Template:   "C18_fee_conversion_during_price_outage.go.tmpl", PkgDir: "x/masterchef/keeper", TestName: "TestKeeperSuite/TestVerifReplayC18FeeConversionDuringPriceOutage",
		Marker: "C18 violated on the real code",
		Data: func(m map[string]string, goal string) (map[string]interface{}, error) {
			return map[string]interface{}{"Fee": "1000"}, nil
		},
	})
	// C15: the burner burns any denom with bank metadata found at the zero address
	registerReplay(&Replayer{
		Obligation: "x/burner/keeper.(Keeper).burnTokensForDenom/burns:C15/burns-only-the-native-token",
		Template:   "C15_burner_external_asset.go.tmpl", PkgDir: "x/burner/keeper", TestName: "TestVerifReplayC15BurnerBurnsExternalAsset",
		Marker: "C15 violated on the real code",
		Data: func(m map[string]string, goal string) (map[string]interface{}, error) {
			amt := intOr(m, `^arg\.balance!amt\(any\.d\)$`, "1")
			if strings.HasPrefix(amt, "-") || amt == "0" {
				amt = "1"
			}
			// the model's denom is an abstract value different from the native token
			return map[string]interface{}{"Denom": "uatom", "Amount": amt}, nil
		},
	})
	// C14: a vesting entry whose released amount is ahead of its (reduced) schedule; the
	// claim must still succeed. Reached after a partial cancel (Cancel > 0) or directly.
	registerReplay(&Replayer{
		Obligation: "x/commitment/keeper.(Keeper).ClaimVesting/nopanic",
		Template:   "C14_cancel_then_claim.go.tmpl", PkgDir: "x/commitment/keeper", TestName: "TestVerifReplayC14CancelThenClaim",
		Marker: "C14 violated on the real code",
		Data: func(m map[string]string, goal string) (map[string]interface{}, error) {
			for _, i := range []string{"0", "1"} {
				pre := `VestingTokens\.\[` + i + `\]\.\*\.`
				if _, ok := modelLookup(m, pre+"TotalAmount"); !ok {
					if _, ok2 := modelLookup(m, pre+"NumBlocks"); !ok2 {
						continue
					}
				}
				d := map[string]interface{}{
					"Total":      intOr(m, pre+"TotalAmount", "0"),
					"Claimed":    intOr(m, pre+"ClaimedAmount", "0"),
					"NumBlocks":  intOr(m, pre+"NumBlocks", "1"),
					"StartBlock": intOr(m, pre+"StartBlock", "0"),
					"Height":     intOr(m, `^ctx!height$`, "0"),
					"Cancel":     "0",
				}
				return d, nil
			}
			return nil, fmt.Errorf("model names no vesting entry")
		},
	})
}

func runPattern(name string) string {
	parts := strings.Split(name, "/")
	for i := range parts {
		parts[i] = "^" + parts[i] + "$"
	}
	return strings.Join(parts, "/")
}
