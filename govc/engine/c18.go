package engine

import (
	"sort"
	"strings"

	"govc/sym"

	"golang.org/x/tools/go/ssa"
)

// c18Extra lists every module's BeginBlock / EndBlock with the elys functions it calls and says
// which of them carry a no-panic contract for C18 (a coverage listing in the evidence; the
// obligations themselves are the `nopanic` VCs of those contracts).
func c18Extra(e *Engine, pc *PropertyCheck) {
	f := e.Frames()
	var covered, trivial, open []string
	for _, fn := range f.funcs {
		if fn.Signature.Recv() == nil || (fn.Name() != "BeginBlock" && fn.Name() != "EndBlock") {
			continue
		}
		if !strings.HasSuffix(fn.Signature.Recv().Type().String(), "AppModule") || isTestOrMock(pkgOfFn(fn)) {
			continue
		}
		name := shortPkg(fn) + "." + sym.FuncKey(fn)
		var callees []*ssa.Function
		seen := map[*ssa.Function]bool{}
		for _, c := range f.edges[fn] {
			c = rootFn(c)
			if !seen[c] && strings.HasSuffix(pkgOfFn(c), "/keeper") {
				seen[c] = true
				callees = append(callees, c)
			}
		}
		if len(callees) == 0 {
			trivial = append(trivial, name)
			continue
		}
		for _, c := range callees {
			ct := e.Env.Cfg.Contracts[c]
			entry := name + " -> " + shortPkg(c) + "." + sym.FuncKey(c)
			if ct != nil && ct.NoPanic && contractServes(ct, "C18") {
				covered = append(covered, entry)
			} else {
				open = append(open, entry)
			}
		}
	}
	sort.Strings(covered)
	sort.Strings(trivial)
	sort.Strings(open)
	pc.Extra["block_functions_under_a_no_panic_contract"] = covered
	pc.Extra["block_functions_that_call_no_keeper_code"] = trivial
	pc.Extra["block_functions_NOT_covered (no claim)"] = open
}
