package engine

import (
	"encoding/json"
	"fmt"
	"os"
	"path/filepath"
	"sort"
	"strings"
	"time"
)

// PropSpec describes how one property is decided.
type PropSpec struct {
	ID        string
	Level     string
	Technique string
	Contracts bool                               // run the tagged contracts
	Extra     func(e *Engine, pc *PropertyCheck) // additional obligations (scans, lemmas, bounded stand-ins)
	Thorough  func(e *Engine, pc *PropertyCheck) // thorough-tier additions
	Assumes   []string
	Patterns  []string // package patterns to load (default ./x/... ./app/...)
	MaxPaths  int
}

var Props = map[string]*PropSpec{}

func register(p *PropSpec) { Props[p.ID] = p }

func RunProperty(id, tier string, writeBaseline bool) int {
	ps := Props[id]
	if ps == nil {
		fmt.Fprintf(os.Stderr, "property %s has no registered check\n", id)
		return 2
	}
	start := time.Now()
	e, err := Load(ps.Patterns...)
	if err != nil {
		// the tree does not load (does not compile): nothing can be decided; this is not a
		// property violation but the check cannot succeed either
		fmt.Fprintf(os.Stderr, "load failed: %v\n", err)
		return 2
	}
	if len(e.Unbound) > 0 {
		fmt.Printf("NOTE: contracts without a function on this tree: %v\n", e.Unbound)
	}
	pc := &PropertyCheck{ID: id, Tier: tier, Start: start, Bounded: map[string]int{}, Aborts: map[string][]string{}, Extra: map[string]interface{}{}}
	timeout := 10 * time.Second
	if tier == "thorough" {
		timeout = 120 * time.Second
	}
	maxPaths := ps.MaxPaths
	if maxPaths == 0 {
		maxPaths = 30000
	}
	if ps.Contracts {
		e.RunContracts(pc, timeout, maxPaths)
	}
	if ps.Extra != nil {
		ps.Extra(e, pc)
	}
	e.stableFieldsScan(pc)
	if tier == "thorough" && ps.Thorough != nil {
		ps.Thorough(e, pc)
	}
	if len(e.Unbound) > 0 {
		pc.Extra["stale_contracts"] = e.Unbound
	}
	if writeBaseline {
		return writeBaselineFile(pc)
	}
	return e.Finish(pc, ps.Level, ps.Technique, ps.Assumes)
}

func writeBaselineFile(pc *PropertyCheck) int {
	path := filepath.Join(VerifDir(), "baseline", "obligations.json")
	os.MkdirAll(filepath.Dir(path), 0o755)
	var base Baseline
	_ = loadJSON(path, &base)
	if base.Claimed == nil {
		base.Claimed = map[string][]string{}
	}
	seen := map[string]bool{}
	bad := map[string]bool{}
	for _, o := range pc.Outcomes {
		if o.Status != "discharged" {
			bad[o.Name] = true
		}
	}
	var names []string
	for _, o := range pc.Outcomes {
		if o.Status == "discharged" && !bad[o.Name] && !seen[o.Name] && !strings.Contains(o.Name, "/known-defect-") {
			seen[o.Name] = true
			names = append(names, o.Name)
		}
	}
	sort.Strings(names)
	base.Claimed[pc.ID] = names
	if base.Unclaimed == nil {
		base.Unclaimed = map[string][]string{}
	}
	var un []string
	for n := range bad {
		un = append(un, n)
	}
	sort.Strings(un)
	base.Unclaimed[pc.ID] = un
	b, _ := json.MarshalIndent(base, "", " ")
	if err := os.WriteFile(path, b, 0o644); err != nil {
		fmt.Fprintln(os.Stderr, err)
		return 2
	}
	fmt.Printf("baseline: property %s claims %d obligations; not discharged (unclaimed): %d\n", pc.ID, len(names), len(bad))
	for n := range bad {
		fmt.Println("  unclaimed:", n)
	}
	return 0
}

func init() {
	register(&PropSpec{ID: "C06", Level: "proof", Contracts: true,
		Technique: "contract-based deductive verification: ghost-aggregate delta contracts on the real stablestake keeper functions, VCs from go/ssa discharged by z3/cvc5"})
	register(&PropSpec{ID: "C07", Level: "proof", Contracts: true,
		Technique: "contract-based deductive verification: Bond/Unbond issue and redeem at the live rate (postconditions over the same fixed-point terms the code computes, rounding made explicit), exact integer 90% cap on Borrow; VCs from go/ssa discharged by z3/cvc5"})
	register(&PropSpec{ID: "C12", Level: "proof", Contracts: true,
		Technique: "contract-based deductive verification: ledger spec functions (committedOf, lockedFor) with type-level contracts (collections bounded), keeper-level delta contracts over ghost aggregates, hook frame checked against its implementation; VCs from go/ssa discharged by z3/cvc5"})
	register(&PropSpec{ID: "C17", Level: "proof", Contracts: true, Extra: c17Extra,
		Technique: "contract-based deductive verification: a generated contract {msg.authority != k.authority} H {err != nil, world unchanged} for every mechanically enumerated governance handler, owner-only postconditions on owner-scoped handlers; path VCs from go/ssa"})
	register(&PropSpec{ID: "C20", Level: "proof", Contracts: true,
		Technique: "contract-based deductive verification: escrow conservation and owner-only postconditions over the ghost bank on every tradeshield order handler and execution helper (error exits included where the caller swallows errors), trigger conditions tied to the module's own price call; VCs from go/ssa discharged by z3/cvc5"})
	register(&PropSpec{ID: "C15", Level: "proof", Contracts: true, Extra: c15Extra,
		Technique: "contract-based deductive verification: complete SSA enumeration of bank mint/burn call sites, each inside a function whose `mints`/`burns` contract clause (denoms with non-zero amount belong to the site's class) is discharged by path VCs; migration-only reachability and module-permission cross-checks"})
	register(&PropSpec{ID: "C19", Level: "proof", Contracts: true, Extra: c19Extra,
		Technique: "frame and purity obligations over go/ssa (contract-style sufficient conditions): no package-level or keeper-field state, no nondeterministic source (wall clock only into telemetry), every map range in an order-independent form"})
	register(&PropSpec{ID: "C16", Level: "proof", Contracts: true, Extra: c16Extra,
		Technique: "contract-based deductive verification: byte-level key lemmas over spec functions extracted mechanically from the real key builders (SMT strings), lookup/feed/expiry contracts over the ghost price table; VCs from go/ssa discharged by z3/cvc5"})
	register(&PropSpec{ID: "C08", Level: "proof", Contracts: true, Extra: func(e *Engine, pc *PropertyCheck) { e.writerClosure(pc, "C08", "leveragelp") },
		Technique: "contract-based deductive verification: ghost aggregates (per-pool sum of position shares, number of stored positions) with gap-preservation contracts on every function that writes the leveragelp store and on all their callers up to the entry points (closure checked on the SSA call graph); VCs from go/ssa discharged by z3/cvc5"})
	register(&PropSpec{ID: "C01", Level: "proof", Contracts: true, Extra: func(e *Engine, pc *PropertyCheck) {
		e.writerClosure(pc, "C01", "amm", "amm:types.KeyPrefix/types.PoolKey")
	},
		Technique: "contract-based deductive verification: per-pool, per-denom gap contracts (reserve reported by the stored pool - bank balance at the pool address) on the real join/exit/create/swap/fee/perpetual-transfer functions, type-level reserve bookkeeping contracts, freshness preconditions on every pool object handed down (quantified over denoms and discharged with solver-level quantifiers), closure scan over every writer of the amm pool table; VCs from go/ssa discharged by z3/cvc5"})
	register(&PropSpec{ID: "C02", Level: "proof", Contracts: true, Extra: func(e *Engine, pc *PropertyCheck) {
		e.writerClosure(pc, "C02", "amm", "amm:types.KeyPrefix/types.PoolKey")
	},
		Technique: "contract-based deductive verification: gap contracts (pool.TotalShares - share-token supply; supply - commitment custody balance) on the real join/exit/create functions of amm and the commit/uncommit functions of commitment, type-level share bookkeeping contracts, closure scan over every writer of the amm pool table; VCs from go/ssa discharged by z3/cvc5"})
	register(&PropSpec{ID: "C04", Level: "proof", Contracts: true, Extra: c04Extra,
		Technique: "contract-based deductive verification: bank-level settlement postconditions on the real swap functions (per hop and per route: sender debited exactly, recipient credited at least, nobody else's balance moves), accept-only-enqueues frames on the message handlers, structural obligations on the end-of-block batch (requests applied on fresh cache contexts, written only after success); VCs from go/ssa discharged by z3/cvc5"})
	register(&PropSpec{ID: "C11", Level: "proof", Contracts: true,
		Technique: "contract-based deductive verification: functional contracts on the two accounted-pool update functions (accounted balance of every listed denom = reserve of the pool object handed in + perpetual liabilities - custody of the perpetual pool object handed in; recorded perpetual part kept by liquidity-pool changes), interface contracts on the perpetual position hooks whose preconditions (the two pool objects are the stored ones, quantified over denoms) are proved at the call sites in x/perpetual; VCs from go/ssa discharged by z3/cvc5"})
	register(&PropSpec{ID: "C09", Level: "proof", Contracts: true, Extra: func(e *Engine, pc *PropertyCheck) {
		e.writerClosure(pc, "C09", "perpetual", "perpetual:types.GetMTPKey", "perpetual:types.OpenMTPCountPrefix", "perpetual:types.MTPCountPrefix")
	},
		Technique: "contract-based deductive verification: delta-match contracts on the real perpetual functions that move position amounts (Borrow, Repay, borrow-interest settlement, funding collection and distribution, consolidation merge): whatever they add to or take from a position's custody, liabilities and collateral they add to or take from the pool's book for that side and asset, and from no other; type-level contracts on the pool's update functions; open-position counter in step with the stored positions on SetMTP/DestroyMTP; VCs from go/ssa discharged by z3/cvc5. Partial: per-operation on the objects handed in, not yet the stored-state sum over all positions; custody backing by the liquidity pool not decided"})
	register(&PropSpec{ID: "C13", Level: "proof", Contracts: true, Extra: func(e *Engine, pc *PropertyCheck) {
		e.writerClosure(pc, "C13", "masterchef", "masterchef:types.GetUserRewardInfoKey", "masterchef:types.GetPoolRewardInfoKey")
	},
		Technique: "contract-based deductive verification: functional contracts on the real masterchef accrual functions (UpdateAccPerShare credits amount/total committed rounded down and nothing when nothing is committed; the deposit/withdraw hooks settle what the old balance earned and checkpoint the new balance against the current reward per share, for every reward denom GetRewardDenoms names; GetRewardDenoms names the base currency, Eden when enabled and every external reward denom of the pool), row-key invariants, `callers` clauses and a writer-closure scan pinning every writer of the two reward tables; VCs from go/ssa discharged by z3/cvc5. Partial: accrual only - the solvency half (module balance >= sum of pending) is not decided"})
	register(&PropSpec{ID: "C18", Level: "proof", Contracts: true, Extra: c18Extra,
		Technique: "contract-based deductive verification: `nopanic` contracts on block functions - every Go panic site reachable in the function and in the callees executed in line (explicit panics, nil dereference, index out of range, division by zero and negative-coin panics of the SDK math and coin types as modelled) is an obligation that the path reaching it is infeasible; deferred recover() is modelled; VCs from go/ssa discharged by z3/cvc5. Coverage listing of all module block functions in the evidence"})
	register(&PropSpec{ID: "C10", Level: "proof", Contracts: true,
		Technique: "contract-based deductive verification: gate postconditions on the real liquidation / stop-loss / take-profit helpers of leveragelp and perpetual (a force close runs only behind the stated comparison on the values the module computes at that moment; a position off its trigger is left alone), opens and consolidating re-opens store a health strictly above the safety factor read at that moment, owner-keyed lookups on user closes, `callers` clauses pinning every route to the force-close and repay functions; VCs from go/ssa discharged by z3/cvc5"})
	register(&PropSpec{ID: "C14", Level: "proof", Contracts: true,
		Technique: "contract-based deductive verification: strongest postcondition of VestedSoFar against the linear spec function, claim/cancel delta contracts, VCs from go/ssa discharged by z3/cvc5"})
}
