package engine

import (
	"go/types"
	"govc/sym"
	"sort"
	"strings"

	"golang.org/x/tools/go/ssa"
)

// Frame inference: for every elys function, the set of ghost-state components it may write,
// computed over the static call graph (class-hierarchy resolution of interface calls restricted
// to elys implementations; a superset of the hook wiring in app/keepers/keepers.go).
//
// Effects: "store:<module>" (a KV write in a function of x/<module>), "bank" (a state-changing
// bank keeper method), "sdk:<Iface>.<Method>" (a state-changing-looking method of another
// external keeper or hook interface: read as "anything may change").
type Frames struct {
	e       *Engine
	direct  map[*ssa.Function]map[string]bool
	edges   map[*ssa.Function][]*ssa.Function
	closure map[*ssa.Function]map[string]bool
	funcs   []*ssa.Function
	impls   map[string][]*ssa.Function
}

func moduleOf(path string) string {
	i := strings.Index(path, "/x/")
	if i < 0 {
		return strings.TrimPrefix(path, ElysMod+"/")
	}
	rest := path[i+3:]
	if j := strings.Index(rest, "/"); j >= 0 {
		rest = rest[:j]
	}
	return rest
}

var bankWriters = map[string]bool{
	"SendCoins": true, "SendCoinsFromModuleToAccount": true, "SendCoinsFromAccountToModule": true, "SendCoinsFromModuleToModule": true,
	"MintCoins": true, "BurnCoins": true, "DelegateCoins": true, "UndelegateCoins": true, "DelegateCoinsFromAccountToModule": true,
	"UndelegateCoinsFromModuleToAccount": true, "SetDenomMetaData": true, "InputOutputCoins": true, "SetSendEnabled": true,
}

// sdkEffects: what the state-changing methods of SDK keepers reached from elys code may write
// (from the SDK sources; methods not listed are read as "anything may change").
var sdkEffects = map[string][]string{
	"DistrKeeper.IncrementValidatorPeriod":    {"store:sdk-distribution"},
	"DistrKeeper.WithdrawDelegationRewards":   {"store:sdk-distribution", "bank"},
	"DistrKeeper.WithdrawValidatorCommission": {"store:sdk-distribution", "bank"},
	"DistrKeeper.FundCommunityPool":           {"store:sdk-distribution", "bank"},
	"DistrKeeper.AllocateTokensToValidator":   {"store:sdk-distribution"},
	"DistrKeeper.AllocateTokens":              {"store:sdk-distribution", "bank"},
	"AccountKeeper.SetAccount":                {"store:sdk-auth"},
	"AccountKeeper.NewAccountWithAddress":     {"store:sdk-auth"},
	"AccountKeeper.NewAccount":                {"store:sdk-auth"},
	"AccountKeeper.SetModuleAccount":          {"store:sdk-auth"},
}

func readOnlyName(m string) bool {
	for _, p := range []string{"Get", "Has", "Is", "Iterate", "Query", "Validate", "Calc", "Estimate", "Logger", "String", "Spendable", "Locked", "Blocked", "Total", "Bonded", "Unbonding", "Validator", "Delegation", "MaxValidators", "Power", "Bond", "Hooks", "Params", "Export", "All"} {
		if strings.HasPrefix(m, p) {
			return true
		}
	}
	return false
}

func (e *Engine) Frames() *Frames {
	if e.frames != nil {
		return e.frames
	}
	f := &Frames{e: e, direct: map[*ssa.Function]map[string]bool{}, edges: map[*ssa.Function][]*ssa.Function{}, closure: map[*ssa.Function]map[string]bool{}, impls: map[string][]*ssa.Function{}}
	seen := map[*ssa.Function]bool{}
	var add func(fn *ssa.Function)
	add = func(fn *ssa.Function) {
		if fn == nil || seen[fn] || len(fn.Blocks) == 0 {
			return
		}
		seen[fn] = true
		f.funcs = append(f.funcs, fn)
		for _, a := range fn.AnonFuncs {
			add(a)
		}
	}
	for _, p := range e.Prog.AllPackages() {
		if !strings.HasPrefix(p.Pkg.Path(), ElysMod) {
			continue
		}
		for _, m := range p.Members {
			switch m := m.(type) {
			case *ssa.Function:
				add(m)
			case *ssa.Type:
				for _, t := range []types.Type{m.Type(), types.NewPointer(m.Type())} {
					ms := e.Prog.MethodSets.MethodSet(t)
					for i := 0; i < ms.Len(); i++ {
						add(e.Prog.MethodValue(ms.At(i)))
					}
				}
			}
		}
	}
	for _, fn := range f.funcs {
		f.scan(fn)
	}
	// fixpoint
	for _, fn := range f.funcs {
		c := map[string]bool{}
		for k := range f.direct[fn] {
			c[k] = true
		}
		f.closure[fn] = c
	}
	changed := true
	for changed {
		changed = false
		for _, fn := range f.funcs {
			c := f.closure[fn]
			for _, callee := range f.edges[fn] {
				for k := range f.closure[callee] {
					if !c[k] {
						c[k] = true
						changed = true
					}
				}
			}
		}
	}
	e.frames = f
	return f
}

func pkgOfFn(fn *ssa.Function) string {
	for fn.Parent() != nil {
		fn = fn.Parent()
	}
	if fn.Pkg != nil {
		return fn.Pkg.Pkg.Path()
	}
	if fn.Object() != nil && fn.Object().Pkg() != nil {
		return fn.Object().Pkg().Path()
	}
	return ""
}

func (f *Frames) implsOf(it *types.Interface, named *types.Named, method string) []*ssa.Function {
	key := named.String() + "." + method
	if r, ok := f.impls[key]; ok {
		return r
	}
	var out []*ssa.Function
	for _, n := range f.e.named {
		if _, isIface := n.Underlying().(*types.Interface); isIface {
			continue
		}
		path := n.Obj().Pkg().Path()
		if strings.Contains(path, "/mocks") || strings.Contains(path, "/testutil") || strings.Contains(path, "/simulation") {
			continue
		}
		for _, t := range []types.Type{n, types.NewPointer(n)} {
			if types.Implements(t, it) {
				ms := f.e.Prog.MethodSets.MethodSet(t)
				for i := 0; i < ms.Len(); i++ {
					if ms.At(i).Obj().Name() == method {
						if fn := f.e.Prog.MethodValue(ms.At(i)); fn != nil {
							out = append(out, fn)
						}
					}
				}
				break
			}
		}
	}
	f.impls[key] = out
	return out
}

func (f *Frames) scan(fn *ssa.Function) {
	d := map[string]bool{}
	f.direct[fn] = d
	mod := moduleOf(pkgOfFn(fn))
	addEdge := func(callee *ssa.Function) {
		if callee == nil {
			return
		}
		if len(callee.Blocks) == 0 {
			return
		}
		p := pkgOfFn(callee)
		if !strings.HasPrefix(p, ElysMod) {
			return
		}
		f.edges[fn] = append(f.edges[fn], callee)
	}
	for _, b := range fn.Blocks {
		for _, ins := range b.Instrs {
			// any function value mentioned may be called
			for _, op := range ins.Operands(nil) {
				if op == nil || *op == nil {
					continue
				}
				switch v := (*op).(type) {
				case *ssa.Function:
					addEdge(v)
				case *ssa.MakeClosure:
					if cf, ok := v.Fn.(*ssa.Function); ok {
						addEdge(cf)
					}
				}
			}
			if mc, ok := ins.(*ssa.MakeClosure); ok {
				if cf, ok := mc.Fn.(*ssa.Function); ok {
					addEdge(cf)
				}
			}
			call, ok := ins.(ssa.CallInstruction)
			if !ok {
				continue
			}
			cc := call.Common()
			if cc.IsInvoke() {
				m := cc.Method.Name()
				named, _ := types.Unalias(cc.Value.Type()).(*types.Named)
				iname, ipath := "", ""
				if named != nil {
					iname = named.Obj().Name()
					if named.Obj().Pkg() != nil {
						ipath = named.Obj().Pkg().Path()
					}
				}
				switch {
				case (iname == "KVStore" || iname == "BasicKVStore" || iname == "Store") && (m == "Set" || m == "Delete"):
					d[storeEffect(mod, cc.Value, firstArg(cc.Args))] = true
				case strings.Contains(iname, "BankKeeper") && bankWriters[m]:
					d["bank"] = true
					if m == "MintCoins" || m == "BurnCoins" {
						d["bank:supply"] = true
					}
				case strings.Contains(iname, "BankKeeper"):
					// reads
				case iname == "Logger" || iname == "GasMeter" || iname == "EventManagerI" || iname == "Iterator" || iname == "KVStoreService" ||
					iname == "TransientStoreService" || iname == "BinaryCodec" || iname == "Codec" || iname == "error" || iname == "Msg" || iname == "Context" ||
					strings.HasPrefix(ipath, "cosmossdk.io/log") || iname == "" || ipath == "context" || ipath == "fmt" || ipath == "io" || ipath == "sort":
				default:
					if it, ok := cc.Value.Type().Underlying().(*types.Interface); ok && named != nil {
						impls := f.implsOf(it, named, m)
						if len(impls) > 0 {
							for _, c := range impls {
								addEdge(c)
							}
						} else if eff, ok := sdkEffects[iname+"."+m]; ok {
							for _, x := range eff {
								d[x] = true
							}
						} else if !readOnlyName(m) {
							d["sdk:"+iname+"."+m] = true
						}
					}
				}
				continue
			}
			switch callee := cc.Value.(type) {
			case *ssa.Function:
				name := callee.String()
				switch {
				case strings.HasSuffix(name, "cosmossdk.io/store/prefix.Store).Set"), strings.HasSuffix(name, "cosmossdk.io/store/prefix.Store).Delete"):
					if len(cc.Args) >= 2 {
						d[storeEffect(mod, cc.Args[0], cc.Args[1])] = true
					} else {
						d["store:"+mod] = true
					}
				default:
					addEdge(callee)
					// external function receiving a context and not known to be effect-free
					if len(callee.Blocks) == 0 && !strings.HasPrefix(pkgOfFn(callee), ElysMod) {
						if takesCtx(callee.Signature) && !effectFreeExternal(name) {
							d["sdk:"+name] = true
						}
					}
				}
			}
		}
	}
}

func takesCtx(sig *types.Signature) bool {
	for i := 0; i < sig.Params().Len(); i++ {
		s := types.TypeString(sig.Params().At(i).Type(), nil)
		if s == "github.com/cosmos/cosmos-sdk/types.Context" || s == "context.Context" {
			return true
		}
	}
	return false
}

func effectFreeExternal(name string) bool {
	for _, p := range []string{"github.com/cosmos/cosmos-sdk/types.UnwrapSDKContext", "github.com/cosmos/cosmos-sdk/types.WrapSDKContext", "github.com/cosmos/cosmos-sdk/telemetry.",
		"github.com/cosmos/cosmos-sdk/types/query.", "github.com/cosmos/cosmos-sdk/runtime.", "cosmossdk.io/store/", "(github.com/cosmos/cosmos-sdk/types.Context)."} {
		if strings.Contains(name, p) {
			return true
		}
	}
	// read-only keeper methods of SDK keepers
	if i := strings.LastIndex(name, "."); i >= 0 && readOnlyName(name[i+1:]) {
		return true
	}
	return false
}

// MayWrite returns the sorted effect set of a function.
func (f *Frames) MayWrite(fn *ssa.Function) []string {
	var out []string
	for k := range f.closure[fn] {
		out = append(out, k)
	}
	sort.Strings(out)
	return out
}

// MayWriteIface: union over all elys implementations of an interface method.
func (f *Frames) MayWriteIface(itype types.Type, method string) ([]string, int) {
	named, _ := types.Unalias(itype).(*types.Named)
	it, ok := itype.Underlying().(*types.Interface)
	if !ok || named == nil {
		return nil, 0
	}
	set := map[string]bool{}
	impls := f.implsOf(it, named, method)
	for _, fn := range impls {
		for k := range f.closure[fn] {
			set[k] = true
		}
	}
	var out []string
	for k := range set {
		out = append(out, k)
	}
	sort.Strings(out)
	return out, len(impls)
}

// Why returns one call chain from fn to a function that has the effect directly.
func (f *Frames) Why(fn *ssa.Function, effect string) []string {
	prev := map[*ssa.Function]*ssa.Function{fn: nil}
	queue := []*ssa.Function{fn}
	for len(queue) > 0 {
		x := queue[0]
		queue = queue[1:]
		if f.direct[x][effect] {
			var out []string
			for y := x; y != nil; y = prev[y] {
				out = append([]string{y.String()}, out...)
			}
			return out
		}
		for _, c := range f.edges[x] {
			if _, ok := prev[c]; !ok {
				prev[c] = x
				queue = append(queue, c)
			}
		}
	}
	return nil
}

func firstArg(a []ssa.Value) ssa.Value {
	if len(a) == 0 {
		return nil
	}
	return a[0]
}

// storeEffect names the table a KV write addresses when the store and the key are built, in
// the writing function itself, from the same ingredients the symbolic executor names tables
// by (prefix stores over key-builder calls and key-prefix globals): "table:<module>:<tags>".
// Anything it cannot resolve is the whole module: "store:<module>".
func storeEffect(mod string, store, key ssa.Value) string {
	whole := "store:" + mod
	if store == nil || key == nil {
		return whole
	}
	ptags, transient, ok := storeTags(store, 0)
	if !ok {
		return whole
	}
	ktags, ok := keyTags(key, 0)
	if !ok {
		return whole
	}
	tags := append(ptags, ktags...)
	kind := ""
	if transient {
		kind = "~"
	}
	return "table:" + mod + kind + ":" + strings.Join(tags, "/")
}

func calleeName(v ssa.Value) (string, *ssa.Call) {
	c, ok := v.(*ssa.Call)
	if !ok {
		return "", nil
	}
	if c.Call.IsInvoke() {
		return c.Call.Method.Name(), c
	}
	if f, ok := c.Call.Value.(*ssa.Function); ok {
		return f.String(), c
	}
	return "", c
}

func storeTags(v ssa.Value, depth int) (tags []string, transient bool, ok bool) {
	if depth > 6 {
		return nil, false, false
	}
	switch x := v.(type) {
	case *ssa.MakeInterface:
		return storeTags(x.X, depth+1)
	case *ssa.ChangeInterface:
		return storeTags(x.X, depth+1)
	case *ssa.Call:
		name, c := calleeName(x)
		switch {
		case strings.HasSuffix(name, "cosmossdk.io/store/prefix.NewStore") && len(c.Call.Args) == 2:
			pt, tr, ok := storeTags(c.Call.Args[0], depth+1)
			if !ok {
				return nil, false, false
			}
			kt, ok := keyTags(c.Call.Args[1], depth+1)
			if !ok {
				return nil, false, false
			}
			return append(pt, kt...), tr, true
		case strings.HasSuffix(name, "runtime.KVStoreAdapter") && len(c.Call.Args) == 1:
			return storeTags(c.Call.Args[0], depth+1)
		case name == "OpenKVStore":
			return nil, false, true
		case strings.HasSuffix(name, "cosmos-sdk/types.Context).KVStore") && len(c.Call.Args) == 2:
			return nil, sym.IsTransientKeyExpr(c.Call.Args[1]), true
		case strings.HasSuffix(name, "cosmos-sdk/types.Context).TransientStore"):
			return nil, true, true
		case name == "OpenTransientStore":
			return nil, true, true
		}
	}
	return nil, false, false
}

// keyTags mirrors the executor's naming of key bytes: an elys function returning []byte is
// the tag pkg.Func, a package-level []byte variable the tag pkg.Var.
func keyTags(v ssa.Value, depth int) ([]string, bool) {
	if depth > 6 {
		return nil, false
	}
	switch x := v.(type) {
	case *ssa.Call:
		if f, ok := x.Call.Value.(*ssa.Function); ok && f.Pkg != nil && strings.HasPrefix(f.Pkg.Pkg.Path(), ElysMod) && len(f.Blocks) > 0 {
			rs := f.Signature.Results()
			if rs.Len() == 1 && rs.At(0).Type().String() == "[]byte" {
				return []string{f.Pkg.Pkg.Name() + "." + f.Name()}, true
			}
		}
	case *ssa.UnOp:
		if g, ok := x.X.(*ssa.Global); ok && g.Pkg != nil && strings.HasPrefix(g.Pkg.Pkg.Path(), ElysMod) {
			return []string{g.Pkg.Pkg.Name() + "." + g.Name()}, true
		}
	case *ssa.Convert:
		// []byte(someString): the executor's tag for converted strings
		if b, ok := x.X.Type().Underlying().(*types.Basic); ok && b.Info()&types.IsString != 0 {
			return []string{"str"}, true
		}
	}
	return nil, false
}

// WritesModule: some effect of the set is a write to the module's store.
func WritesModule(set map[string]bool, module string) bool {
	for k := range set {
		if k == "store:"+module || strings.HasPrefix(k, "table:"+module+":") || strings.HasPrefix(k, "table:"+module+"~:") {
			return true
		}
	}
	return false
}
