package engine

import (
	"fmt"
	"strings"

	"govc/sym"

	"golang.org/x/tools/go/ssa"
)

// c04Extra: structural obligations on the end-of-block swap batch, whose unbounded loop over
// the request queue is outside what the path executor unrolls:
//   - every application of a queued swap request (ApplySwapRequest) runs on a context that
//     comes out of a CacheContext() call of the same function, never on the live context;
//   - the write function of such a cache context is called only in a block that is reached
//     through the `err == nil` side of a comparison of the error returned by an
//     ApplySwapRequest call on that same cache context.
// Together with the routing contracts (what a successful application does) this gives "settles
// as requested or changes nothing"; that a request is deleted after its attempt is not decided
// here (see MANIFEST).
func c04Extra(e *Engine, pc *PropertyCheck) {
	fn := e.FindFunc("x/amm/keeper", "(Keeper).ExecuteSwapRequests")
	name := "x/amm/keeper.(Keeper).ExecuteSwapRequests/C04/"
	if fn == nil {
		pc.Outcomes = append(pc.Outcomes, &Outcome{Name: name + "requests-applied-on-cache-contexts", Status: "failed", Kind: "scan", Detail: "function not found"})
		return
	}
	// cache contexts: Extract #0 of a call to (sdk.Context).CacheContext
	cacheCtx := map[ssa.Value]*ssa.Call{}
	writeFn := map[ssa.Value]*ssa.Call{}
	for _, b := range fn.Blocks {
		for _, ins := range b.Instrs {
			ex, ok := ins.(*ssa.Extract)
			if !ok {
				continue
			}
			c, ok := ex.Tuple.(*ssa.Call)
			if !ok {
				continue
			}
			if f, ok := c.Call.Value.(*ssa.Function); ok && strings.HasSuffix(f.String(), "types.Context).CacheContext") {
				if ex.Index == 0 {
					cacheCtx[ex] = c
				} else {
					writeFn[ex] = c
				}
			}
		}
	}
	var bad []string
	applied := map[*ssa.Call][]*ssa.Call{} // CacheContext call -> ApplySwapRequest calls on it
	for _, b := range fn.Blocks {
		for _, ins := range b.Instrs {
			c, ok := ins.(*ssa.Call)
			if !ok {
				continue
			}
			f, ok := c.Call.Value.(*ssa.Function)
			if !ok || f.Name() != "ApplySwapRequest" {
				continue
			}
			if len(c.Call.Args) < 2 {
				bad = append(bad, "ApplySwapRequest call without context")
				continue
			}
			cc, ok := cacheCtx[c.Call.Args[1]]
			if !ok {
				bad = append(bad, fmt.Sprintf("ApplySwapRequest at %s runs on a context that is not a fresh cache context", e.Prog.Fset.Position(c.Pos())))
				continue
			}
			applied[cc] = append(applied[cc], c)
		}
	}
	o := &Outcome{Name: name + "requests-applied-on-cache-contexts", Func: "x/amm/keeper.(Keeper).ExecuteSwapRequests", Kind: "scan", Status: "discharged", Detail: fmt.Sprintf("%d ApplySwapRequest calls, each on its own CacheContext()", len(applied))}
	if len(bad) > 0 || len(applied) == 0 {
		o.Status = "failed"
		o.Detail = strings.Join(bad, "; ")
		if len(applied) == 0 && len(bad) == 0 {
			o.Detail = "no ApplySwapRequest call found"
		}
	}
	pc.Outcomes = append(pc.Outcomes, o)
	// write() only behind err == nil of the application on the same cache context
	var bad2 []string
	writes := 0
	for _, b := range fn.Blocks {
		for _, ins := range b.Instrs {
			c, ok := ins.(*ssa.Call)
			if !ok {
				continue
			}
			cc, ok := writeFn[c.Call.Value]
			if !ok {
				continue
			}
			writes++
			if !guardedByNilErr(b, applied[cc]) {
				bad2 = append(bad2, fmt.Sprintf("write() at %s is not guarded by the success of the request applied on its cache context", e.Prog.Fset.Position(c.Pos())))
			}
		}
	}
	o2 := &Outcome{Name: name + "cache-written-only-after-success", Func: "x/amm/keeper.(Keeper).ExecuteSwapRequests", Kind: "scan", Status: "discharged", Detail: fmt.Sprintf("%d write() calls, each dominated by the err == nil side of its own application", writes)}
	if len(bad2) > 0 || writes == 0 {
		o2.Status = "failed"
		o2.Detail = strings.Join(bad2, "; ")
		if writes == 0 {
			o2.Detail = "no write() call found"
		}
	}
	pc.Outcomes = append(pc.Outcomes, o2)
	_ = sym.FuncKey
}

// guardedByNilErr: block b is dominated by the true successor of `if err == nil` (or the false
// successor of `if err != nil`) where err is the result of one of the given calls.
func guardedByNilErr(b *ssa.BasicBlock, calls []*ssa.Call) bool {
	isErrOf := func(v ssa.Value) bool {
		for _, c := range calls {
			if v == ssa.Value(c) {
				return true
			}
		}
		return false
	}
	for d := b; d != nil; d = d.Idom() {
		id := d.Idom()
		if id == nil {
			break
		}
		ifi, ok := id.Instrs[len(id.Instrs)-1].(*ssa.If)
		if !ok {
			continue
		}
		// which successor of id dominates b?
		for si, succ := range id.Succs {
			if succ != d && !succ.Dominates(b) {
				continue
			}
			if succ != d {
				continue
			}
			if len(d.Preds) != 1 {
				continue // joined from elsewhere: the condition does not hold on every way in
			}
			if condSaysNil(ifi.Cond, isErrOf, si == 0) {
				return true
			}
		}
	}
	return false
}

// condSaysNil: taking this side of the condition implies err == nil for an err of the calls.
func condSaysNil(cond ssa.Value, isErrOf func(ssa.Value) bool, trueSide bool) bool {
	switch c := cond.(type) {
	case *ssa.BinOp:
		isNil := func(v ssa.Value) bool {
			k, ok := v.(*ssa.Const)
			return ok && k.IsNil()
		}
		if (isErrOf(c.X) && isNil(c.Y)) || (isErrOf(c.Y) && isNil(c.X)) {
			if c.Op.String() == "==" {
				return trueSide
			}
			if c.Op.String() == "!=" {
				return !trueSide
			}
		}
	}
	return false
}
