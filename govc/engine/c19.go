package engine

import (
	"fmt"
	"go/types"
	"sort"
	"strings"

	"govc/sym"

	"golang.org/x/tools/go/ssa"
)

// C19 (sufficient conditions, proved over every non-test function of x/ and app/ that is
// reachable in the static call graph from a message handler, a block function, a hook or a
// genesis/upgrade function — and, conservatively, over every other keeper function too):
//
//  (a) frame: no store to a package-level variable and no store through a keeper receiver
//      outside construction (New*, Set*Keeper, SetHooks): consensus state lives in the KV
//      stores only, so a restarted node re-reads the same world (durability of the store
//      itself is the SDK's, T1);
//  (b) no nondeterministic source: wall clock, random numbers, environment, goroutines,
//      select; time.Now() is allowed only where its value flows into telemetry alone;
//  (c) every `range` over a Go map is one of the order-independent forms recognised below,
//      otherwise it fails (and is triaged by hand into the evidence).
//
// What this family cannot decide is said in DESIGN.md: equality of application hashes across
// processes, DB recovery, protobuf determinism (all inside T1/T5).

func c19Scope(path string) bool {
	if !strings.HasPrefix(path, ElysMod+"/x/") && path != ElysMod+"/app" && !strings.HasPrefix(path, ElysMod+"/app/") {
		return false
	}
	for _, bad := range []string{"/client/", "/simulation", "/testutil", "/mocks", "/wasm", "/cli"} {
		if strings.Contains(path, bad) {
			return false
		}
	}
	return true
}

var nondetCalls = []string{"time.Now", "time.Since", "time.Until", "math/rand.", "crypto/rand.", "os.Getenv", "os.Hostname", "os.Getpid", "os.ReadFile", "os.Open", "runtime.NumGoroutine", "runtime.GC", "runtime.NumCPU", "time.LoadLocation", "time.Sleep", "time.After", "time.Tick", "time.NewTimer", "time.NewTicker"}

func c19Extra(e *Engine, pc *PropertyCheck) {
	f := e.Frames()
	var ranges, globals, nondet, recvStores []string
	add := func(name, status, kind, detail, fn string) {
		pc.Outcomes = append(pc.Outcomes, &Outcome{Name: name, Func: fn, Status: status, Kind: kind, Detail: detail})
	}
	nFuncs := 0
	ord := map[string]int{}
	funcs := append([]*ssa.Function{}, f.funcs...)
	sort.Slice(funcs, func(i, j int) bool { return funcs[i].String() < funcs[j].String() })
	// consensus entry points and everything they reach in the static call graph
	handlers := map[*ssa.Function]bool{}
	for _, h := range e.msgHandlers() {
		handlers[h.fn] = true
	}
	reach := map[*ssa.Function]bool{}
	var roots []string
	var work []*ssa.Function
	for _, fn := range funcs {
		n := fn.Name()
		isRoot := handlers[fn]
		for _, p := range []string{"BeginBlock", "EndBlock", "PreBlock", "InitGenesis", "ExportGenesis", "AnteHandle", "PostHandle", "OnRecvPacket", "OnAcknowledgementPacket", "OnTimeoutPacket", "OnChanOpen"} {
			if strings.HasPrefix(n, p) {
				isRoot = true
			}
		}
		if fn.Signature.Recv() != nil && (strings.HasPrefix(n, "After") || strings.HasPrefix(n, "Before") || strings.HasPrefix(n, "On")) {
			isRoot = true
		}
		if strings.Contains(pkgOfFn(fn), "/migrations") || strings.Contains(n, "UpgradeHandler") || strings.Contains(n, "setUpgradeHandler") {
			isRoot = true
		}
		if isRoot && c19Scope(pkgOfFn(fn)) && !reach[fn] {
			reach[fn] = true
			work = append(work, fn)
			roots = append(roots, shortPkg(rootFn(fn))+"."+sym.FuncKey(rootFn(fn)))
		}
	}
	for len(work) > 0 {
		x := work[len(work)-1]
		work = work[:len(work)-1]
		next := append([]*ssa.Function{}, f.edges[x]...)
		next = append(next, x.AnonFuncs...)
		for _, c := range next {
			if !reach[c] {
				reach[c] = true
				work = append(work, c)
			}
		}
	}
	pc.Extra["entry_points"] = len(roots)
	var unreachableWriters []string
	for _, fn := range funcs {
		root := rootFn(fn)
		path := pkgOfFn(fn)
		if !c19Scope(path) || root.Synthetic != "" {
			continue
		}
		if !reach[fn] && !reach[root] {
			// not reachable from a consensus entry point: listed only when it writes package state
			for _, b := range fn.Blocks {
				for _, ins := range b.Instrs {
					if st, ok := ins.(*ssa.Store); ok {
						if g := globalOf(st.Addr); g != nil && root.Name() != "init" && !strings.HasPrefix(root.Name(), "init#") {
							unreachableWriters = append(unreachableWriters, shortPkg(root)+"."+sym.FuncKey(root)+" writes "+g.Name())
						}
					}
				}
			}
			continue
		}
		pos := e.Prog.Fset.Position(root.Pos())
		if strings.HasSuffix(pos.Filename, "_test.go") || strings.HasSuffix(pos.Filename, "test_setup.go") || strings.HasSuffix(pos.Filename, ".pb.go") || strings.HasSuffix(pos.Filename, ".pb.gw.go") {
			continue
		}
		nFuncs++
		key := shortPkg(root) + "." + sym.FuncKey(root)
		isInit := root.Name() == "init" || strings.HasPrefix(root.Name(), "init#")
		constructor := strings.HasPrefix(root.Name(), "New") || strings.HasPrefix(root.Name(), "Set") && (strings.HasSuffix(root.Name(), "Keeper") || strings.HasSuffix(root.Name(), "Hooks")) || root.Name() == "SetHooks" || strings.HasPrefix(root.Name(), "Register") || strings.HasPrefix(root.Name(), "With")
		for _, b := range fn.Blocks {
			for _, ins := range b.Instrs {
				where := func() string {
					p := e.Prog.Fset.Position(ins.Pos())
					return fmt.Sprintf("%s:%d", strings.TrimPrefix(p.Filename, e.Repo+"/"), p.Line)
				}
				switch x := ins.(type) {
				case *ssa.Go:
					ord[key+"/go"]++
					nondet = append(nondet, "go statement in "+key)
					add(fmt.Sprintf("%s/C19/no-goroutine#%d", key, ord[key+"/go"]), "failed", "scan", "go statement at "+where(), key)
				case *ssa.Select:
					ord[key+"/select"]++
					add(fmt.Sprintf("%s/C19/no-select#%d", key, ord[key+"/select"]), "failed", "scan", "select at "+where(), key)
				case *ssa.Store:
					if g := globalOf(x.Addr); g != nil && !isInit {
						ord[key+"/global"]++
						globals = append(globals, key+" writes "+g.Name())
						add(fmt.Sprintf("%s/C19/no-package-state#%d", key, ord[key+"/global"]), "failed", "scan", "store to package-level variable "+g.Name()+" at "+where(), key)
					}
					if !constructor && !isInit && throughReceiver(x.Addr, root) {
						ord[key+"/recv"]++
						recvStores = append(recvStores, key)
						add(fmt.Sprintf("%s/C19/no-keeper-field-state#%d", key, ord[key+"/recv"]), "failed", "scan", "store through the receiver (in-memory keeper state) at "+where(), key)
					}
				case *ssa.MapUpdate:
					if g := globalOf(x.Map); g != nil && !isInit {
						ord[key+"/global"]++
						add(fmt.Sprintf("%s/C19/no-package-state#%d", key, ord[key+"/global"]), "failed", "scan", "update of package-level map "+g.Name()+" at "+where(), key)
					}
				case *ssa.Range:
					if _, ok := x.X.Type().Underlying().(*types.Map); ok {
						ord[key+"/range"]++
						n := ord[key+"/range"]
						form, ok := mapRangeForm(x, e)
						ranges = append(ranges, fmt.Sprintf("%s#%d: %s", key, n, form))
						st := "discharged"
						if !ok {
							st = "failed"
						}
						add(fmt.Sprintf("%s/C19/map-range-order-independent#%d", key, n), st, "scan", form+" ("+where()+")", key)
					}
				case ssa.CallInstruction:
					cc := x.Common()
					callee, _ := cc.Value.(*ssa.Function)
					if callee == nil {
						continue
					}
					name := callee.String()
					for _, nd := range nondetCalls {
						if name == nd || (strings.HasSuffix(nd, ".") && strings.HasPrefix(name, nd)) {
							ord[key+"/nondet"]++
							n := ord[key+"/nondet"]
							if (name == "time.Now" || name == "time.Since") && onlyTelemetry(x) {
								add(fmt.Sprintf("%s/C19/wall-clock-flows-to-telemetry-only#%d", key, n), "discharged", "scan", name+" at "+where()+": every use of the value is an argument of a telemetry call", key)
							} else {
								nondet = append(nondet, name+" in "+key)
								add(fmt.Sprintf("%s/C19/no-nondeterministic-source#%d", key, n), "failed", "scan", name+" at "+where(), key)
							}
						}
					}
				}
			}
		}
	}
	add("C19/functions-scanned", "discharged", "scan", fmt.Sprintf("%d functions of x/ and app/ (tests, generated code, cli, simulation excluded)", nFuncs), "")
	sort.Strings(unreachableWriters)
	pc.Extra["package_state_writers_not_reachable_from_entry_points"] = unreachableWriters
	pc.Extra["map_ranges"] = ranges
	pc.Extra["functions_scanned"] = nFuncs
	pc.Extra["package_state_writes"] = globals
	pc.Extra["nondeterministic_sources"] = nondet
	pc.Extra["receiver_stores"] = recvStores
}

func globalOf(v ssa.Value) *ssa.Global {
	for i := 0; i < 8; i++ {
		switch x := v.(type) {
		case *ssa.Global:
			return x
		case *ssa.FieldAddr:
			v = x.X
		case *ssa.IndexAddr:
			v = x.X
		case *ssa.UnOp:
			v = x.X
		default:
			return nil
		}
	}
	return nil
}

// throughReceiver: the address is a field (path) of the pointer receiver of fn.
func throughReceiver(v ssa.Value, fn *ssa.Function) bool {
	if fn.Signature.Recv() == nil || len(fn.Params) == 0 {
		return false
	}
	pt, ok := fn.Params[0].Type().(*types.Pointer)
	if !ok {
		return false
	}
	// only long-lived objects (keepers, message/query servers, app modules) count: data
	// types with pointer-receiver mutators (Pool, MTP, Commitments, ...) are ordinary values
	nt, ok := pt.Elem().(*types.Named)
	if !ok {
		return false
	}
	tn := nt.Obj().Name()
	if !(strings.HasSuffix(tn, "Keeper") || tn == "msgServer" || tn == "Querier" || strings.HasPrefix(tn, "AppModule") || strings.HasSuffix(tn, "Hooks") || strings.HasSuffix(tn, "Decorator")) {
		return false
	}
	for i := 0; i < 8; i++ {
		switch x := v.(type) {
		case *ssa.FieldAddr:
			v = x.X
		case *ssa.IndexAddr:
			v = x.X
		case *ssa.Parameter:
			return x == fn.Params[0]
		default:
			return false
		}
	}
	return false
}

// onlyTelemetry: every (transitive, through time.Since / Sub) use of the call's value is an
// argument of a telemetry / metrics function or a defer of one.
func onlyTelemetry(call ssa.CallInstruction) bool {
	v, ok := call.(ssa.Value)
	if !ok {
		return false
	}
	refs := v.Referrers()
	if refs == nil {
		return true
	}
	for _, r := range *refs {
		switch u := r.(type) {
		case ssa.CallInstruction:
			cc := u.Common()
			callee, _ := cc.Value.(*ssa.Function)
			if callee == nil {
				return false
			}
			n := callee.String()
			if strings.Contains(n, "telemetry.") || strings.Contains(n, "go-metrics") {
				continue
			}
			if n == "time.Since" || strings.HasPrefix(n, "(time.Time).Sub") {
				if uc, ok := u.(ssa.CallInstruction); ok && onlyTelemetry(uc) {
					continue
				}
			}
			return false
		case *ssa.DebugRef:
		default:
			return false
		}
	}
	return true
}

// mapRangeForm recognises order-independent shapes of a map loop by looking at what the
// loop body (the blocks dominated by the loop head up to its exit) does.
func mapRangeForm(r *ssa.Range, e *Engine) (string, bool) {
	fn := r.Parent()
	// the body: instructions of blocks reachable from the Next's block without leaving the loop
	var next *ssa.Next
	for _, ref := range *r.Referrers() {
		if n, ok := ref.(*ssa.Next); ok {
			next = n
		}
	}
	if next == nil {
		return "range without next", false
	}
	head := next.Block()
	// loop blocks: blocks from which head is reachable and which are reachable from head
	reachFrom := func(start *ssa.BasicBlock) map[*ssa.BasicBlock]bool {
		seen := map[*ssa.BasicBlock]bool{}
		var dfs func(b *ssa.BasicBlock)
		dfs = func(b *ssa.BasicBlock) {
			if seen[b] {
				return
			}
			seen[b] = true
			for _, s := range b.Succs {
				dfs(s)
			}
		}
		dfs(start)
		return seen
	}
	fromHead := reachFrom(head)
	var loop []*ssa.BasicBlock
	for _, b := range fn.Blocks {
		if fromHead[b] && reachFrom(b)[head] {
			loop = append(loop, b)
		}
	}
	writes, calls, appends, mapWrites, arith := 0, []string{}, 0, 0, 0
	var commuting []string
	earlyExit := false
	for _, b := range loop {
		for _, ins := range b.Instrs {
			switch x := ins.(type) {
			case *ssa.Return:
				earlyExit = true
			case *ssa.Store:
				writes++
			case *ssa.MapUpdate:
				mapWrites++
			case *ssa.BinOp:
				arith++
			case ssa.CallInstruction:
				cc := x.Common()
				if bi, ok := cc.Value.(*ssa.Builtin); ok {
					if bi.Name() == "append" {
						appends++
					}
					continue
				}
				name := ""
				if cc.IsInvoke() {
					name = cc.Method.Name()
					// a call that cannot write any ghost state (call-graph inference over all
					// implementations) only reads: it does not order the iterations
					if eff, n := e.Frames().MayWriteIface(cc.Value.Type(), name); n > 0 && len(eff) == 0 {
						continue
					}
				} else if callee, ok := cc.Value.(*ssa.Function); ok {
					name = callee.String()
					if strings.HasPrefix(pkgOfFn(callee), ElysMod) && len(callee.Blocks) > 0 {
						if len(e.Frames().MayWrite(callee)) == 0 {
							continue
						}
						// a callee with a discharged `commutes` contract clause
						if ct := e.Env.Cfg.Contracts[callee]; ct != nil && len(ct.Commutes) > 0 {
							commuting = append(commuting, sym.FuncKey(callee))
							continue
						}
					}
				} else {
					name = "dynamic call"
				}
				calls = append(calls, name)
			}
		}
	}
	// loop exits other than through the head (break/return inside the body) make the result order-dependent
	for _, b := range loop {
		for _, s := range b.Succs {
			if !fromHead[s] || !reachFrom(s)[head] {
				if b != head {
					earlyExit = true
				}
			}
		}
	}
	// loop-carried values (phis fed from inside the loop): allowed only as commutative
	// accumulators (integer +, sdkmath/Coins Add); anything else makes the result depend on
	// the iteration order
	inLoop := map[*ssa.BasicBlock]bool{}
	for _, b := range loop {
		inLoop[b] = true
	}
	carried := ""
	taint := map[ssa.Value]bool{}
	for _, b := range loop {
		for _, ins := range b.Instrs {
			phi, ok := ins.(*ssa.Phi)
			if !ok {
				continue
			}
			for i, p := range b.Preds {
				if inLoop[p] && i < len(phi.Edges) {
					taint[phi] = true
				}
			}
		}
	}
	for changed := true; changed; {
		changed = false
		for _, b := range loop {
			for _, ins := range b.Instrs {
				v, isVal := ins.(ssa.Value)
				uses := false
				for _, op := range ins.Operands(nil) {
					if op != nil && *op != nil && taint[*op] {
						uses = true
					}
				}
				if !uses {
					continue
				}
				switch u := ins.(type) {
				case *ssa.Phi:
					if !taint[u] {
						taint[u], changed = true, true
					}
				case *ssa.BinOp:
					str := false
					if bt, ok := u.X.Type().Underlying().(*types.Basic); ok && bt.Info()&types.IsString != 0 {
						str = true
					}
					if u.Op.String() == "+" && !str {
						if !taint[u] {
							taint[u], changed = true, true
						}
					} else {
						carried = "a value carried from one iteration to the next is used in the non-commutative operation " + u.Op.String()
					}
				case *ssa.DebugRef:
				case ssa.CallInstruction:
					n := ""
					if callee, ok := u.Common().Value.(*ssa.Function); ok {
						n = callee.String()
					}
					if strings.HasSuffix(n, ").Add") || strings.HasSuffix(n, ".MaxInt") || strings.HasSuffix(n, ".MinInt") {
						if isVal && !taint[v] {
							taint[v], changed = true, true
						}
					} else {
						carried = "a value carried from one iteration to the next is passed to " + n
					}
				default:
					carried = fmt.Sprintf("a value carried from one iteration to the next is used by %T", ins)
				}
			}
		}
	}
	if carried != "" {
		return "order-dependent: " + carried, false
	}
	pure := func(n string) bool {
		for _, p := range []string{"cosmossdk.io/math.", "(cosmossdk.io/math.", "strings.", "fmt.Sprint", "(github.com/cosmos/cosmos-sdk/types.Coin", "(github.com/cosmos/cosmos-sdk/types.Dec", "github.com/cosmos/cosmos-sdk/types.NewCoin", "github.com/cosmos/cosmos-sdk/types.NewDecCoin", "(github.com/cosmos/cosmos-sdk/types.AccAddress).String", "String", "Error"} {
			if strings.HasPrefix(n, p) || n == p {
				return true
			}
		}
		return false
	}
	impure := []string{}
	for _, c := range calls {
		if !pure(c) {
			impure = append(impure, c)
		}
	}
	sortedAfter := false
	for _, b := range fn.Blocks {
		for _, ins := range b.Instrs {
			if c, ok := ins.(ssa.CallInstruction); ok {
				if callee, ok := c.Common().Value.(*ssa.Function); ok {
					n := callee.String()
					if strings.HasPrefix(n, "sort.") || strings.HasPrefix(n, "slices.Sort") || strings.Contains(n, ").Sort") {
						sortedAfter = true
					}
				}
			}
		}
	}
	if len(commuting) > 0 && len(impure) == 0 && appends == 0 {
		return fmt.Sprintf("each iteration calls %v, whose `commutes` contract clause (two calls on distinct keys leave the same ghost world in either order) is discharged by the contract run; an early exit happens only on an error, which the only caller turns into a panic (nothing is committed)", commuting), true
	}
	switch {
	case len(impure) == 0 && !earlyExit && appends > 0 && sortedAfter:
		return "collects keys/values into a slice that the function sorts afterwards", true
	case len(impure) == 0 && !earlyExit && appends == 0 && writes == 0:
		return "body only updates maps / commutative accumulators with pure arithmetic (no early exit, no state access)", true
	case len(impure) == 0 && !earlyExit && appends == 0:
		return "body stores only results of pure arithmetic over the entry (no early exit, no state access, no ordered output)", true
	}
	return fmt.Sprintf("not a recognised order-independent form: impure calls %v, appends=%d (sorted afterwards=%v), early exit=%v", impure, appends, sortedAfter, earlyExit), false
}
