// Package engine loads /repo, binds the contract files and discharges obligations.
package engine

import (
	"fmt"
	"go/types"
	"os"
	"sort"
	"strings"
	"sync"
	"time"

	"govc/smt"
	"govc/sym"

	"golang.org/x/tools/go/packages"
	"golang.org/x/tools/go/ssa"
	"golang.org/x/tools/go/ssa/ssautil"
)

const ElysMod = "github.com/elys-network/elys"

type Engine struct {
	Repo     string
	Pkgs     []*packages.Package
	Prog     *ssa.Program
	Specs    *sym.SpecSet
	Env      *sym.Env
	Unbound  []string
	LoadSecs float64
	implMemo map[string]*ssa.Function
	named    []*types.Named
	frames   *Frames
}

func RepoDir() string {
	if d := os.Getenv("GOVC_REPO"); d != "" {
		return d
	}
	return "/repo"
}

// Load builds SSA for ./x/... and ./app/... of the repository's current working tree with
// the build tag `verif` on.
func Load(patterns ...string) (*Engine, error) {
	start := time.Now()
	repo := RepoDir()
	if len(patterns) == 0 {
		patterns = []string{"./x/...", "./app/..."}
	}
	cfg := &packages.Config{
		Mode:       packages.LoadSyntax,
		Dir:        repo,
		BuildFlags: []string{"-tags=verif"},
		Env:        append(os.Environ(), "GOFLAGS=-mod=mod", "GOPROXY=off", "GOSUMDB=off", "GOTOOLCHAIN=local"),
	}
	pkgs, err := packages.Load(cfg, patterns...)
	if err != nil {
		return nil, err
	}
	var errs []string
	packages.Visit(pkgs, nil, func(p *packages.Package) {
		for _, e := range p.Errors {
			errs = append(errs, e.Error())
		}
	})
	if len(errs) > 0 {
		return nil, fmt.Errorf("package errors: %s", strings.Join(errs[:min(len(errs), 5)], "; "))
	}
	prog, _ := ssautil.Packages(pkgs, ssa.InstantiateGenerics)
	prog.Build()
	e := &Engine{Repo: repo, Pkgs: pkgs, Prog: prog, implMemo: map[string]*ssa.Function{}}
	specs, err := sym.LoadSpecs(repo)
	if err != nil {
		return nil, err
	}
	e.Specs = specs
	cfgS := &sym.Config{
		Prog:         prog,
		Modular:      map[*ssa.Function]bool{},
		Abstract:     map[string]*sym.AbstractSpec{},
		DefaultBound: 2,
		Bounds:       map[string]int{},
		MaxDepth:     24,
		MaxBlockVis:  40,
	}
	cfgS.Contracts, e.Unbound = specs.Bind(prog)
	cfgS.IfaceContracts = map[string]*sym.Contract{}
	for _, c := range specs.Contracts {
		if c.Iface {
			cfgS.IfaceContracts[c.Key] = c
		}
	}
	for fn, c := range cfgS.Contracts {
		if c.HasMod && !c.Inline {
			cfgS.Modular[fn] = true
		}
	}
	e.Env = &sym.Env{Cfg: cfgS, Specs: specs}
	cfgS.EnvRef = e.Env
	cfgS.Resolver = e.resolveImpl
	cfgS.IfaceFrame = func(it types.Type, m string) ([]string, int) { return e.Frames().MayWriteIface(it, m) }
	cfgS.FuncFrame = func(fn *ssa.Function) []string { return e.Frames().MayWrite(fn) }
	for _, p := range prog.AllPackages() {
		if !strings.HasPrefix(p.Pkg.Path(), ElysMod) {
			continue
		}
		for _, m := range p.Members {
			if t, ok := m.(*ssa.Type); ok {
				if n, ok := t.Type().(*types.Named); ok {
					e.named = append(e.named, n)
				}
			}
		}
	}
	sort.Slice(e.named, func(i, j int) bool { return e.named[i].String() < e.named[j].String() })
	if err := e.Env.BindAggs(); err != nil {
		return nil, err
	}
	if err := e.Env.BindRowInvs(); err != nil {
		return nil, err
	}
	e.LoadSecs = time.Since(start).Seconds()
	return e, nil
}

// resolveImpl finds the unique non-mock elys type implementing iface and returns its method.
func (e *Engine) resolveImpl(iface types.Type, method string) *ssa.Function {
	key := types.TypeString(iface, nil) + "." + method
	if f, ok := e.implMemo[key]; ok {
		return f
	}
	it, ok := iface.Underlying().(*types.Interface)
	if !ok {
		return nil
	}
	var cands []*ssa.Function
	for _, n := range e.named {
		if _, isIface := n.Underlying().(*types.Interface); isIface {
			continue
		}
		path := n.Obj().Pkg().Path()
		if strings.Contains(path, "/mocks") || strings.Contains(path, "/testutil") || strings.Contains(path, "/simulation") {
			continue
		}
		if strings.HasPrefix(n.Obj().Name(), "Multi") { // hook multiplexers are resolved separately
			continue
		}
		for _, t := range []types.Type{n, types.NewPointer(n)} {
			if types.Implements(t, it) {
				ms := e.Prog.MethodSets.MethodSet(t)
				for i := 0; i < ms.Len(); i++ {
					if ms.At(i).Obj().Name() == method {
						if f := e.Prog.MethodValue(ms.At(i)); f != nil && f.Synthetic == "" {
							dup := false
							for _, c := range cands {
								if c == f {
									dup = true
								}
							}
							if !dup {
								cands = append(cands, f)
							}
						}
					}
				}
				break
			}
		}
	}
	var f *ssa.Function
	if len(cands) == 1 {
		f = cands[0]
	}
	if os.Getenv("GOVC_DEBUG") != "" {
		fmt.Fprintf(os.Stderr, "resolve %s: %d candidates %v (named=%d)\n", key, len(cands), cands, len(e.named))
	}
	e.implMemo[key] = f
	return f
}

// FindFunc locates a function by package path suffix and contract-style key.
func (e *Engine) FindFunc(pkgSuffix, key string) *ssa.Function {
	for _, p := range e.Prog.AllPackages() {
		if !strings.HasSuffix(p.Pkg.Path(), pkgSuffix) {
			continue
		}
		for _, m := range p.Members {
			switch m := m.(type) {
			case *ssa.Function:
				if sym.FuncKey(m) == key {
					return m
				}
			case *ssa.Type:
				for _, t := range []types.Type{m.Type(), types.NewPointer(m.Type())} {
					ms := e.Prog.MethodSets.MethodSet(t)
					for i := 0; i < ms.Len(); i++ {
						f := e.Prog.MethodValue(ms.At(i))
						if f != nil && f.Synthetic == "" && sym.FuncKey(f) == key {
							return f
						}
					}
				}
			}
		}
	}
	return nil
}

// ---- discharging -----------------------------------------------------------------------------

type ObligStatus struct {
	Name         string
	Paths        int
	Trivial      int
	Status       string // "discharged", "failed", "undecided"
	Solvers      map[string]int
	Seconds      float64
	Failing      *sym.Oblig
	Result       *smt.Result
	Script       string
	Notes        []string
	MaxQuery     float64
	Cover        bool
	CoverSat     bool // a candidate path was shown reachable
	CoverUnknown int  // candidates the solvers did not decide
}

// Discharge groups obligations by name and decides each path's VC.
func Discharge(obs []*sym.Oblig, timeout time.Duration, workers int) []*ObligStatus {
	byName := map[string]*ObligStatus{}
	var order []string
	type job struct {
		o  *sym.Oblig
		st *ObligStatus
	}
	var jobs []job
	coverTried := map[string]int{}
	for _, o := range obs {
		st := byName[o.Name]
		if st == nil {
			st = &ObligStatus{Name: o.Name, Status: "discharged", Solvers: map[string]int{}}
			if o.Cover {
				st.Status = "undecided" // until one path is shown reachable
				st.Cover = true
			}
			byName[o.Name] = st
			order = append(order, o.Name)
		}
		st.Paths++
		if o.Cover {
			// a few candidate paths suffice
			if coverTried[o.Name] >= 3000 {
				continue
			}
			coverTried[o.Name]++
			jobs = append(jobs, job{o, st})
			continue
		}
		if o.Goal.IsTrue() {
			st.Trivial++
			continue
		}
		jobs = append(jobs, job{o, st})
	}
	// scripts are built serially (the term table is not concurrent); only solving is parallel
	scripts := make([]*smt.Script, len(jobs))
	for i, j := range jobs {
		hyps := append([]*smt.Term(nil), j.o.Hyps...)
		hyps = append(hyps, Axioms(append(hyps, j.o.Goal))...)
		scripts[i] = smt.BuildScript(hyps, j.o.Goal, false)
	}
	var mu sync.Mutex
	var wg sync.WaitGroup
	ch := make(chan int)
	for i := 0; i < workers; i++ {
		wg.Add(1)
		go func() {
			defer wg.Done()
			for ji := range ch {
				j := jobs[ji]
				sc := scripts[ji]
				if j.o.Cover {
					// one reachable candidate is enough
					mu.Lock()
					done := j.st.Status == "discharged" && j.st.CoverSat
					mu.Unlock()
					if done {
						continue
					}
				}
				res := smt.Solve(sc, timeout)
				mu.Lock()
				j.st.Seconds += res.Seconds
				if res.Seconds > j.st.MaxQuery {
					j.st.MaxQuery = res.Seconds
				}
				if j.o.Cover {
					// vacuous only when every candidate path is refuted; a candidate the solvers
					// cannot decide leaves the clause "not shown vacuous"
					switch res.Status {
					case "sat":
						j.st.Status = "discharged"
						j.st.CoverSat = true
						j.st.Solvers[res.Solver]++
					case "unsat":
					default:
						if !j.st.CoverSat {
							j.st.Status = "discharged"
							j.st.CoverUnknown++
						}
					}
					mu.Unlock()
					continue
				}
				switch res.Status {
				case "unsat":
					j.st.Solvers[res.Solver]++
				case "sat":
					if j.st.Status != "failed" {
						j.st.Status = "failed"
						j.st.Failing, j.st.Result, j.st.Script = j.o, res, sc.Text
					}
				default:
					if j.st.Status == "discharged" {
						j.st.Status = "undecided"
						j.st.Failing, j.st.Result, j.st.Script = j.o, res, sc.Text
					}
				}
				mu.Unlock()
			}
		}()
	}
	for i := range jobs {
		ch <- i
	}
	close(ch)
	wg.Wait()
	var out []*ObligStatus
	for _, n := range order {
		out = append(out, byName[n])
	}
	return out
}

// Axioms instantiates the background theory over the ground terms that occur: address
// constructors are injective with pairwise disjoint ranges (T6), bech32 is a bijection
// between addresses and valid strings.
func Axioms(ts []*smt.Term) []*smt.Term {
	seen := map[*smt.Term]bool{}
	var addrApps []*smt.Term
	var bech, unbech []*smt.Term
	for _, t := range ts {
		smt.WalkGround(t, seen, func(x *smt.Term) {
			if x.Op != "app" {
				return
			}
			switch {
			case x.Sort == smt.Addr && (strings.HasPrefix(x.Name, "addrfn!") || x.Name == "modaddr"):
				addrApps = append(addrApps, x)
			case x.Name == "bech32":
				bech = append(bech, x)
			case x.Name == "unbech32":
				unbech = append(unbech, x)
			}
		})
	}
	var tmpls []*smt.Term
	var strLits []*smt.Term
	seen2 := map[*smt.Term]bool{}
	for _, t := range ts {
		smt.WalkGround(t, seen2, func(x *smt.Term) {
			if x.Op == "app" && strings.HasPrefix(x.Name, "strtmpl!") {
				tmpls = append(tmpls, x)
			}
			if x.Op == "lit" && x.Sort == smt.Str {
				strLits = append(strLits, x)
			}
		})
	}
	var out []*smt.Term
	out = append(out, templateAxioms(tmpls, strLits)...)
	closed := func(x *smt.Term) bool {
		ok := true
		smt.Walk(x, map[*smt.Term]bool{}, func(y *smt.Term) {
			if y.Op == "var" && strings.HasPrefix(y.Name, "d!") {
				ok = false
			}
		})
		return ok
	}
	for i := 0; i < len(addrApps); i++ {
		if !closed(addrApps[i]) {
			continue
		}
		for j := i + 1; j < len(addrApps); j++ {
			a, b := addrApps[i], addrApps[j]
			if !closed(b) {
				continue
			}
			if a.Name != b.Name || len(a.Args) != len(b.Args) {
				out = append(out, smt.Ne(a, b))
				continue
			}
			var eqs []*smt.Term
			same := true
			for k := range a.Args {
				if a.Args[k].Sort != b.Args[k].Sort {
					same = false
					break
				}
				eqs = append(eqs, smt.Eq(a.Args[k], b.Args[k]))
			}
			if !same {
				out = append(out, smt.Ne(a, b))
				continue
			}
			out = append(out, smt.Implies(smt.Eq(a, b), smt.And(eqs...)))
		}
		out = append(out, smt.Ne(addrApps[i], smt.Lit("nil", smt.Addr)))
		out = append(out, smt.Not(smt.App("isuser", smt.Bool, addrApps[i])))
	}
	for _, b := range bech {
		if closed(b) {
			out = append(out, smt.Eq(smt.App("unbech32", smt.Addr, b), b.Args[0]))
		}
	}
	for _, u := range unbech {
		if closed(u) {
			out = append(out, smt.Eq(smt.App("bech32", smt.Str, u), u.Args[0]))
		}
	}
	return out
}

// IfaceImpls finds the elys implementations (hook multiplexers excluded) of the interface
// method an interface contract is attached to and records the interface's parameter names.
func (e *Engine) IfaceImpls(ct *sym.Contract) []*ssa.Function {
	parts := strings.SplitN(ct.Key, ".", 2)
	if len(parts) != 2 {
		return nil
	}
	var it *types.Interface
	var named *types.Named
	for _, n := range e.named {
		if n.Obj().Name() == parts[0] && n.Obj().Pkg().Path() == ct.PkgPath {
			if i, ok := n.Underlying().(*types.Interface); ok {
				it, named = i, n
			}
		}
	}
	if it == nil {
		return nil
	}
	_ = named
	for i := 0; i < it.NumMethods(); i++ {
		if m := it.Method(i); m.Name() == parts[1] {
			sig := m.Type().(*types.Signature)
			ct.Alias = []string{"recv"}
			for j := 0; j < sig.Params().Len(); j++ {
				ct.Alias = append(ct.Alias, sig.Params().At(j).Name())
			}
		}
	}
	var out []*ssa.Function
	for _, n := range e.named {
		if _, isIface := n.Underlying().(*types.Interface); isIface {
			continue
		}
		path := n.Obj().Pkg().Path()
		if strings.Contains(path, "/mocks") || strings.Contains(path, "/testutil") || strings.Contains(path, "/simulation") || strings.HasPrefix(n.Obj().Name(), "Multi") {
			continue
		}
		for _, t := range []types.Type{n, types.NewPointer(n)} {
			if types.Implements(t, it) {
				ms := e.Prog.MethodSets.MethodSet(t)
				for i := 0; i < ms.Len(); i++ {
					if ms.At(i).Obj().Name() == parts[1] {
						if f := e.Prog.MethodValue(ms.At(i)); f != nil && f.Synthetic == "" {
							dup := false
							for _, o := range out {
								if o == f {
									dup = true
								}
							}
							if !dup {
								out = append(out, f)
							}
						}
					}
				}
				break
			}
		}
	}
	sort.Slice(out, func(i, j int) bool { return out[i].String() < out[j].String() })
	return out
}

// litPrefix is the literal text of a template before its first placeholder.
func litPrefix(tmpl string) (string, bool) {
	var sb strings.Builder
	for i := 0; i < len(tmpl); i++ {
		if tmpl[i] == '%' {
			if i+1 < len(tmpl) && tmpl[i+1] == '%' {
				sb.WriteByte('%')
				i++
				continue
			}
			return sb.String(), false
		}
		sb.WriteByte(tmpl[i])
	}
	return sb.String(), true
}

// injectiveTemplate: the arguments can be read back from the string: placeholders are
// separated by literal text, every placeholder but the last is numeric (digits cannot run
// into the following literal unless it starts with a digit), a string placeholder may only
// come last.
func injectiveTemplate(tmpl string) bool {
	prev := ""
	for i := 0; i < len(tmpl); i++ {
		if tmpl[i] != '%' {
			if prev == "%u" && tmpl[i] >= '0' && tmpl[i] <= '9' {
				return false
			}
			if prev == "%s" {
				return false
			}
			prev = "lit"
			continue
		}
		if i+1 >= len(tmpl) {
			return false
		}
		v := tmpl[i : i+2]
		i++
		if v == "%%" {
			if prev == "%s" {
				return false
			}
			prev = "lit"
			continue
		}
		if prev == "%u" || prev == "%s" {
			return false
		}
		prev = v
	}
	return true
}

func templateAxioms(tmpls, lits []*smt.Term) []*smt.Term {
	var out []*smt.Term
	for i := 0; i < len(tmpls); i++ {
		a := tmpls[i]
		ta := strings.TrimPrefix(a.Name, "strtmpl!")
		pa, _ := litPrefix(ta)
		for j := i + 1; j < len(tmpls); j++ {
			b := tmpls[j]
			tb := strings.TrimPrefix(b.Name, "strtmpl!")
			if ta == tb {
				if injectiveTemplate(ta) && len(a.Args) == len(b.Args) {
					var eqs []*smt.Term
					ok := true
					for k := range a.Args {
						if a.Args[k].Sort != b.Args[k].Sort {
							ok = false
							break
						}
						eqs = append(eqs, smt.Eq(a.Args[k], b.Args[k]))
					}
					if ok {
						out = append(out, smt.Implies(smt.Eq(a, b), smt.And(eqs...)))
					}
				}
				continue
			}
			pb, _ := litPrefix(tb)
			if !strings.HasPrefix(pa, pb) && !strings.HasPrefix(pb, pa) {
				out = append(out, smt.Ne(a, b))
			}
		}
		for _, l := range lits {
			if !strings.HasPrefix(l.Name, pa) {
				out = append(out, smt.Ne(a, l))
			}
		}
	}
	return out
}
