package engine

import (
	"fmt"
	"go/ast"
	"go/constant"
	"go/types"
	"sort"
	"strings"

	"govc/sym"

	"golang.org/x/tools/go/ssa"
)

// C15: every place where supply can change is enumerated from the SSA of all elys packages
// (calls of a bank keeper's MintCoins/BurnCoins, directly or through a declared
// supply-wrapper), and each must sit in a function whose contract classifies the denoms it
// mints/burns (`mints` / `burns` clauses, proved by the contract run), or in a function
// declared migration-only, which must be unreachable from message and block entry points.
// Module names passed as constants are cross-checked with the app's module-account permissions.

type supplySite struct {
	fn     *ssa.Function // enclosing top-level function
	kind   string
	pos    string
	module string // constant module name, "" if not constant
	via    string
	denoms []string // constant denoms of the coins argument when evident from its SSA definition
	local  bool
}

// constDenoms follows the SSA definition of a coins argument: a slice literal / NewCoins /
// Sort of sdk.NewCoin(<constant denom>, _) calls. ok=false when it is anything else.
func constDenoms(v ssa.Value, depth int) ([]string, bool) {
	if depth > 8 {
		return nil, false
	}
	switch x := v.(type) {
	case *ssa.Call:
		cc := x.Common()
		callee, _ := cc.Value.(*ssa.Function)
		if callee == nil {
			return nil, false
		}
		name := callee.String()
		switch {
		case strings.HasSuffix(name, "cosmos-sdk/types.NewCoin") || strings.HasSuffix(name, "cosmos-sdk/types.NewInt64Coin"):
			if c, ok := cc.Args[0].(*ssa.Const); ok && c.Value != nil && c.Value.Kind() == constant.String {
				return []string{constant.StringVal(c.Value)}, true
			}
			return nil, false
		case strings.HasSuffix(name, "cosmos-sdk/types.NewCoins"):
			return constDenoms(cc.Args[0], depth+1)
		case strings.HasSuffix(name, "cosmos-sdk/types.Coins).Sort"):
			return constDenoms(cc.Args[0], depth+1)
		}
		return nil, false
	case *ssa.ChangeType:
		return constDenoms(x.X, depth+1)
	case *ssa.Slice:
		// slice of a freshly allocated array: collect every store into it
		alloc, ok := x.X.(*ssa.Alloc)
		if !ok {
			return nil, false
		}
		var out []string
		for _, ref := range *alloc.Referrers() {
			ia, ok := ref.(*ssa.IndexAddr)
			if !ok {
				if _, isSlice := ref.(*ssa.Slice); isSlice {
					continue
				}
				return nil, false
			}
			for _, r2 := range *ia.Referrers() {
				st, ok := r2.(*ssa.Store)
				if !ok {
					return nil, false
				}
				ds, ok := constDenoms(st.Val, depth+1)
				if !ok {
					return nil, false
				}
				out = append(out, ds...)
			}
		}
		return out, true
	}
	return nil, false
}

func rootFn(fn *ssa.Function) *ssa.Function {
	for fn.Parent() != nil {
		fn = fn.Parent()
	}
	return fn
}

func isTestOrMock(path string) bool {
	return strings.Contains(path, "/mocks") || strings.Contains(path, "/testutil") || strings.Contains(path, "/simulation") || strings.HasSuffix(path, "/wasm")
}

func (e *Engine) supplySites(wrappers map[*ssa.Function]bool) []supplySite {
	var out []supplySite
	f := e.Frames()
	for _, fn := range f.funcs {
		root := rootFn(fn)
		path := pkgOfFn(fn)
		if isTestOrMock(path) || root.Synthetic != "" {
			continue
		}
		if root.Pkg != nil {
			// skip functions defined in _test files / test setup
			pos := e.Prog.Fset.Position(root.Pos())
			if strings.HasSuffix(pos.Filename, "_test.go") || strings.HasSuffix(pos.Filename, "test_setup.go") {
				continue
			}
		}
		for _, b := range fn.Blocks {
			for _, ins := range b.Instrs {
				call, ok := ins.(ssa.CallInstruction)
				if !ok {
					continue
				}
				cc := call.Common()
				kind, via := "", ""
				var modArg ssa.Value
				if cc.IsInvoke() {
					switch cc.Method.Name() {
					case "MintCoins":
						kind = "mint"
					case "BurnCoins":
						kind = "burn"
					}
					if kind != "" {
						via = types.TypeString(cc.Value.Type(), func(p *types.Package) string { return p.Name() }) + "." + cc.Method.Name()
						if len(cc.Args) >= 2 {
							modArg = cc.Args[1]
						}
					}
				} else if callee, ok := cc.Value.(*ssa.Function); ok && wrappers[callee] {
					kind = "mint"
					if strings.Contains(strings.ToLower(callee.Name()), "burn") {
						kind = "burn"
					}
					via = "wrapper " + sym.FuncKey(callee)
					for i, p := range callee.Params {
						if p.Name() == "moduleName" && i < len(cc.Args) {
							modArg = cc.Args[i]
						}
					}
				}
				if kind == "" {
					continue
				}
				s := supplySite{fn: root, kind: kind, via: via}
				if n := len(cc.Args); n > 0 {
					if ds, ok := constDenoms(cc.Args[n-1], 0); ok && len(ds) > 0 {
						s.denoms, s.local = ds, true
					}
				}
				p := e.Prog.Fset.Position(ins.Pos())
				s.pos = fmt.Sprintf("%s:%d", strings.TrimPrefix(p.Filename, e.Repo+"/"), p.Line)
				if c, ok := modArg.(*ssa.Const); ok && c.Value != nil && c.Value.Kind() == constant.String {
					s.module = constant.StringVal(c.Value)
				}
				out = append(out, s)
			}
		}
	}
	sort.Slice(out, func(i, j int) bool { return out[i].pos < out[j].pos })
	return out
}

// maccPerms reads the module-account permission table of app/modules.go from the typed AST.
func (e *Engine) maccPerms() map[string][]string {
	out := map[string][]string{}
	for _, p := range e.Pkgs {
		if !strings.HasSuffix(p.PkgPath, "/app") {
			continue
		}
		for _, file := range p.Syntax {
			ast.Inspect(file, func(n ast.Node) bool {
				vs, ok := n.(*ast.ValueSpec)
				if !ok || len(vs.Names) != 1 || vs.Names[0].Name != "maccPerms" || len(vs.Values) != 1 {
					return true
				}
				cl, ok := vs.Values[0].(*ast.CompositeLit)
				if !ok {
					return true
				}
				for _, el := range cl.Elts {
					kv, ok := el.(*ast.KeyValueExpr)
					if !ok {
						continue
					}
					tv, ok := p.TypesInfo.Types[kv.Key]
					if !ok || tv.Value == nil {
						continue
					}
					key := constant.StringVal(tv.Value)
					out[key] = []string{}
					if pl, ok := kv.Value.(*ast.CompositeLit); ok {
						for _, pe := range pl.Elts {
							if pv, ok := p.TypesInfo.Types[pe]; ok && pv.Value != nil {
								out[key] = append(out[key], constant.StringVal(pv.Value))
							}
						}
					}
				}
				return false
			})
		}
	}
	return out
}

func c15Extra(e *Engine, pc *PropertyCheck) {
	wrappers := map[*ssa.Function]bool{}
	migration := map[*ssa.Function]bool{}
	classified := map[*ssa.Function]*sym.Contract{}
	for fn, ct := range e.Env.Cfg.Contracts {
		if ct.SupplyWrapper {
			wrappers[fn] = true
		}
		if ct.MigrationOnly {
			migration[fn] = true
		}
		if len(ct.Mints)+len(ct.Burns) > 0 {
			classified[fn] = ct
		}
	}
	sites := e.supplySites(wrappers)
	perms := e.maccPerms()
	var listing []string
	ord := map[string]int{}
	for _, s := range sites {
		key := shortPkg(s.fn) + "." + sym.FuncKey(s.fn)
		// named by enclosing function and ordinal (stable when lines shift)
		ord[key+"/"+s.kind]++
		name := fmt.Sprintf("site:%s#%s%d", key, s.kind, ord[key+"/"+s.kind])
		listing = append(listing, fmt.Sprintf("%s %s in %s via %s module=%q", s.kind, s.pos, key, s.via, s.module))
		o := &Outcome{Name: name + "/classified", Func: key, Kind: "scan", Status: "discharged"}
		ledgerOnly := s.local && strings.Contains(s.via, "wrapper") || s.local && strings.Contains(strings.ToLower(s.via), "commitmentkeeper") || s.local && strings.Contains(strings.ToLower(s.via), "commkeeper")
		if ledgerOnly {
			for _, d := range s.denoms {
				if d != "ueden" && d != "uedenb" {
					ledgerOnly = false
				}
			}
		}
		switch {
		case ledgerOnly:
			o.Detail = fmt.Sprintf("the coins argument is a literal of constant denoms %v: ledger-only denoms, which the commitment wrapper (proved clause forwards-argument-without-ledger-denoms) never forwards to the bank", s.denoms)
		case wrappers[s.fn]:
			o.Detail = "inside declared supply-wrapper " + key + " (its callers are enumerated as sites)"
		case migration[s.fn]:
			o.Detail = "inside migration-only function " + key
		case classified[s.fn] != nil:
			ct := classified[s.fn]
			if (s.kind == "mint" && len(ct.Mints) == 0) || (s.kind == "burn" && len(ct.Burns) == 0) {
				o.Status = "failed"
				o.Detail = "the contract of " + key + " has no `" + s.kind + "s` clause"
			} else {
				o.Detail = "denoms classified by the `" + s.kind + "s` clauses of " + key
			}
		default:
			o.Status = "failed"
			o.Detail = "a " + s.kind + " site in " + key + ", which has no contract classifying what it " + s.kind + "s"
		}
		pc.Outcomes = append(pc.Outcomes, o)
		if s.module != "" && !ledgerOnly {
			need := "minter"
			if s.kind == "burn" {
				need = "burner"
			}
			po := &Outcome{Name: name + "/module-permission", Func: key, Kind: "scan", Status: "discharged", Detail: fmt.Sprintf("module %q has permission %s", s.module, need)}
			has := false
			for _, p := range perms[s.module] {
				if p == need {
					has = true
				}
			}
			if !has {
				po.Status = "failed"
				po.Detail = fmt.Sprintf("module %q lacks permission %s in app maccPerms %v", s.module, need, perms[s.module])
			}
			pc.Outcomes = append(pc.Outcomes, po)
		}
	}
	for fn := range migration {
		e.migrationOnlyScan(pc, fn, "C15")
	}
	pc.Extra["supply_sites"] = listing
	pc.Extra["module_account_permissions"] = perms
}

// migrationOnlyScan: no transitive caller of fn is a message handler, block function or hook.
func (e *Engine) migrationOnlyScan(pc *PropertyCheck, fn *ssa.Function, prop string) {
	f := e.Frames()
	rev := map[*ssa.Function][]*ssa.Function{}
	for caller, callees := range f.edges {
		for _, c := range callees {
			rev[c] = append(rev[c], caller)
		}
	}
	handlers := map[*ssa.Function]bool{}
	for _, h := range e.msgHandlers() {
		handlers[h.fn] = true
	}
	key := shortPkg(fn) + "." + sym.FuncKey(fn)
	seen := map[*ssa.Function]bool{fn: true}
	work := []*ssa.Function{fn}
	var bad []string
	inMigration := false
	for len(work) > 0 {
		x := work[len(work)-1]
		work = work[:len(work)-1]
		for _, c := range rev[x] {
			c = rootFn(c)
			if seen[c] {
				continue
			}
			seen[c] = true
			p := pkgOfFn(c)
			if strings.Contains(p, "/migrations") {
				inMigration = true
				continue // callers of migrations are the upgrade handlers
			}
			n := c.Name()
			if handlers[c] || strings.Contains(n, "BeginBlock") || strings.Contains(n, "EndBlock") || strings.Contains(n, "PreBlock") ||
				strings.HasPrefix(n, "After") || strings.HasPrefix(n, "Before") || strings.Contains(n, "Hook") {
				bad = append(bad, shortPkg(c)+"."+sym.FuncKey(c))
			}
			work = append(work, c)
		}
	}
	o := &Outcome{Name: key + "/" + prop + "/reachable-only-from-migrations", Func: key, Kind: "scan", Status: "discharged", Detail: fmt.Sprintf("%d transitive callers, none a message handler, block function or hook; called from a migration: %v", len(seen)-1, inMigration)}
	if len(bad) > 0 {
		sort.Strings(bad)
		o.Status = "failed"
		o.Detail = "reachable from " + strings.Join(bad, ", ")
	}
	pc.Outcomes = append(pc.Outcomes, o)
}
