package engine

import (
	"fmt"
	"go/types"
	"sort"
	"strings"
	"time"

	"govc/smt"
	"govc/sym"

	"golang.org/x/tools/go/ssa"
)

// C17: for every message handler of every elys module whose message carries a governance
// authority, the generated contract
//
//	{ msg.<AuthorityField> != k.authority }  Handler  { err != nil  &&  world' == world }
//
// is checked on the real handler by symbolic execution: on every returning path the error
// is non-nil and no state-changing primitive (store write, bank operation, or a callee that
// may write according to the frame inference) has run.
//
// Handlers are enumerated mechanically: every method of every type in x/*/keeper implementing
// the module's generated MsgServer interface. A message type with an `Authority` field whose
// handler never compares it with the keeper's authority fails; messages without such a field
// are listed (they are outside the statement's scope, or owner-scoped and handled by the
// owner-only contracts in the modules' contract files).

type handlerInfo struct {
	fn      *ssa.Function
	msgT    *types.Named
	module  string
	hasAuth bool
}

func (e *Engine) msgHandlers() []*handlerInfo {
	var out []*handlerInfo
	seen := map[*ssa.Function]bool{}
	for _, n := range e.named {
		it, ok := n.Underlying().(*types.Interface)
		if !ok || n.Obj().Name() != "MsgServer" || !strings.HasSuffix(n.Obj().Pkg().Path(), "/types") {
			continue
		}
		mod := moduleOf(n.Obj().Pkg().Path())
		for _, c := range e.named {
			if _, isIface := c.Underlying().(*types.Interface); isIface {
				continue
			}
			if moduleOf(c.Obj().Pkg().Path()) != mod || !strings.HasSuffix(c.Obj().Pkg().Path(), "/keeper") {
				continue
			}
			for _, t := range []types.Type{c, types.NewPointer(c)} {
				if !types.Implements(t, it) {
					continue
				}
				ms := e.Prog.MethodSets.MethodSet(t)
				for i := 0; i < it.NumMethods(); i++ {
					sel := ms.Lookup(it.Method(i).Pkg(), it.Method(i).Name())
					if sel == nil {
						continue
					}
					fn := e.Prog.MethodValue(sel)
					if fn == nil || seen[fn] || fn.Synthetic != "" {
						continue
					}
					sig := fn.Signature
					if sig.Params().Len() != 2 {
						continue
					}
					pt, ok := sig.Params().At(1).Type().(*types.Pointer)
					if !ok {
						continue
					}
					mt, ok := pt.Elem().(*types.Named)
					if !ok {
						continue
					}
					seen[fn] = true
					h := &handlerInfo{fn: fn, msgT: mt, module: mod}
					if st, ok := mt.Underlying().(*types.Struct); ok {
						for k := 0; k < st.NumFields(); k++ {
							if st.Field(k).Name() == "Authority" {
								h.hasAuth = true
							}
						}
					}
					out = append(out, h)
				}
				break
			}
		}
	}
	sort.Slice(out, func(i, j int) bool { return out[i].fn.String() < out[j].fn.String() })
	return out
}

func c17Extra(e *Engine, pc *PropertyCheck) {
	timeout := 10 * time.Second
	hs := e.msgHandlers()
	var ungated, gated []string
	for _, h := range hs {
		name := shortPkg(h.fn) + "." + sym.FuncKey(h.fn)
		if !h.hasAuth && !mentionsField(h.fn, "authority") {
			ungated = append(ungated, name+" ("+h.msgT.Obj().Name()+")")
			continue
		}
		res := e.Env.AuthorityCheck(h.fn, h.hasAuth, 4000)
		if res.Field == "" && !h.hasAuth {
			ungated = append(ungated, name+" ("+h.msgT.Obj().Name()+")")
			continue
		}
		gated = append(gated, name+" ["+res.Field+"]")
		pc.Funcs = append(pc.Funcs, name)
		if res.Field == "" {
			pc.Outcomes = append(pc.Outcomes, &Outcome{Name: name + "/C17/authority-compared", Func: name, Status: "failed", Kind: "vc",
				Detail: "the message carries an Authority field but no path of the handler compares it with the keeper's authority: " + res.Note})
			continue
		}
		pc.Outcomes = append(pc.Outcomes, &Outcome{Name: name + "/C17/authority-compared", Func: name, Status: "discharged", Kind: "scan", Paths: res.Paths,
			Detail: "compares msg." + res.Field + " with the keeper's authority"})
		if len(res.Aborts) > 0 {
			pc.Aborts[name] = res.Aborts
		}
		for _, st := range Discharge(res.Obligs, timeout, 16) {
			o := &Outcome{Name: name + "/" + st.Name, Func: name, Status: st.Status, Paths: st.Paths, Trivial: st.Trivial, Solvers: st.Solvers, Seconds: round3(st.Seconds), MaxQuery: round3(st.MaxQuery), Kind: "vc"}
			pc.SolverSecs += st.Seconds
			if st.Status != "discharged" {
				o.fail = st
				o.Detail = failDetail(st)
			}
			if len(res.Aborts) > 0 && st.Status == "discharged" {
				o.Status = "outside-subset"
				o.Detail = strings.Join(res.Aborts, "; ")
			}
			pc.Outcomes = append(pc.Outcomes, o)
		}
		if res.Returning == 0 {
			pc.Outcomes = append(pc.Outcomes, &Outcome{Name: name + "/C17/cover:unauthorised-call-returns", Func: name, Status: "undecided", Kind: "cover", Detail: "no returning path under msg.authority != k.authority"})
		} else {
			pc.Outcomes = append(pc.Outcomes, &Outcome{Name: name + "/C17/cover:unauthorised-call-returns", Func: name, Status: "discharged", Kind: "cover", Paths: res.Returning})
		}
	}
	pc.Extra["governance_gated_handlers"] = gated
	pc.Extra["handlers_without_governance_authority (listed, not claimed)"] = ungated
	pc.Extra["handlers_enumerated"] = len(hs)
	_ = fmt.Sprint
	_ = smt.True
}

// mentionsField: the function body reads a struct field with this name.
func mentionsField(fn *ssa.Function, field string) bool {
	for _, b := range fn.Blocks {
		for _, ins := range b.Instrs {
			switch x := ins.(type) {
			case *ssa.FieldAddr:
				if st, ok := x.X.Type().Underlying().(*types.Pointer).Elem().Underlying().(*types.Struct); ok && st.Field(x.Field).Name() == field {
					return true
				}
			case *ssa.Field:
				if st, ok := x.X.Type().Underlying().(*types.Struct); ok && st.Field(x.Field).Name() == field {
					return true
				}
			}
		}
	}
	return false
}
