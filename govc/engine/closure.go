package engine

import (
	"fmt"
	"go/types"
	"sort"
	"strings"

	"govc/sym"

	"golang.org/x/tools/go/ssa"
)

// writerClosure discharges the structural half of an inductive state invariant ("holds after
// every history"): the contracts prove that each function under contract preserves the
// invariant; this scan proves that nothing else can disturb it:
//
//  1. every function of the module that writes the module's store directly (a KV Set/Delete in
//     its own body, closures included) carries a contract with a clause for the property, and
//  2. every static caller of a function under such a contract carries one too, up to the
//     functions marked `entry` (message handlers, whose failure reverts the transaction, and
//     block functions, whose clauses hold on every exit).
//
// Genesis, migration and upgrade code is outside the claim (listed in the evidence): the
// statement is about the running chain.
func (e *Engine) writerClosure(pc *PropertyCheck, prop, module string, tables ...string) {
	// with a table list, only writers of those tables (or of a table the static naming could
	// not resolve) count as writers of the invariant's state
	writes := func(set map[string]bool) bool {
		if len(tables) == 0 {
			return WritesModule(set, module)
		}
		if set["store:"+module] {
			return true
		}
		for _, t := range tables {
			if set["table:"+t] {
				return true
			}
		}
		return false
	}
	f := e.Frames()
	cts := e.Env.Cfg.Contracts
	outside := func(fn *ssa.Function) bool {
		p := pkgOfFn(fn)
		if isTestOrMock(p) || strings.Contains(p, "/migrations") || strings.Contains(p, "/client") || fn.Synthetic != "" {
			return true
		}
		pos := e.Prog.Fset.Position(fn.Pos())
		if strings.HasSuffix(pos.Filename, "_test.go") {
			return true
		}
		n := fn.Name()
		return strings.Contains(n, "InitGenesis") || strings.Contains(n, "ExportGenesis") || strings.HasPrefix(n, "Migrate") || strings.Contains(strings.ToLower(n), "upgrade") || strings.Contains(n, "Migrat")
	}
	served := func(fn *ssa.Function) bool {
		ct := cts[fn]
		return ct != nil && contractServes(ct, prop)
	}
	var excluded []string
	// 1. primitive writers
	prim := map[*ssa.Function]bool{}
	for _, fn := range f.funcs {
		if !writes(f.direct[fn]) {
			continue
		}
		root := rootFn(fn)
		if moduleOf(pkgOfFn(root)) != module {
			continue
		}
		if outside(root) {
			excluded = append(excluded, shortPkg(root)+"."+sym.FuncKey(root))
			continue
		}
		if ct := cts[root]; ct != nil && ct.MigrationOnly {
			// declared migration-only: shown unreachable from messages, blocks and hooks
			e.migrationOnlyScan(pc, root, prop)
			excluded = append(excluded, shortPkg(root)+"."+sym.FuncKey(root))
			continue
		}
		prim[root] = true
	}
	var prims []*ssa.Function
	for fn := range prim {
		prims = append(prims, fn)
	}
	sort.Slice(prims, func(i, j int) bool { return prims[i].String() < prims[j].String() })
	for _, fn := range prims {
		key := shortPkg(fn) + "." + sym.FuncKey(fn)
		o := &Outcome{Name: key + "/" + prop + "/store-writer-under-contract", Func: key, Kind: "scan", Status: "discharged", Detail: "writes store:" + module + " directly; has a contract for " + prop}
		if !served(fn) {
			o.Status = "failed"
			o.Detail = "writes store:" + module + " directly and has no contract clause for " + prop
		}
		pc.Outcomes = append(pc.Outcomes, o)
	}
	// 2. upward closure
	rev := map[*ssa.Function][]*ssa.Function{}
	for caller, callees := range f.edges {
		for _, c := range callees {
			rev[c] = append(rev[c], caller)
		}
	}
	var under []*ssa.Function
	for fn, ct := range cts {
		if contractServes(ct, prop) {
			under = append(under, fn) // callers are followed across modules
		}
	}
	sort.Slice(under, func(i, j int) bool { return under[i].String() < under[j].String() })
	var entries []string
	for _, fn := range under {
		ct := cts[fn]
		key := shortPkg(fn) + "." + sym.FuncKey(fn)
		if ct.Entry {
			entries = append(entries, key)
			continue
		}
		if why := ct.CallersAssumedFor[prop]; why != "" || ct.CallersAssumed != "" {
			if why == "" {
				why = ct.CallersAssumed
			}
			pc.Assumed = append(pc.Assumed, "preconditions of "+key+" assumed at its call sites (callers not under contract): "+why)
			continue
		}
		if ct.Reader || !writes(f.closure[fn]) {
			continue // cannot write the module's store (call-graph frame inference)
		}
		var bad, ok []string
		seen := map[*ssa.Function]bool{}
		for _, c := range rev[fn] {
			c = rootFn(c)
			if seen[c] || c == fn {
				continue
			}
			seen[c] = true
			ck := shortPkg(c) + "." + sym.FuncKey(c)
			if outside(c) {
				excluded = append(excluded, ck)
				continue
			}
			if served(c) {
				ok = append(ok, ck)
			} else {
				bad = append(bad, ck)
			}
		}
		sort.Strings(bad)
		sort.Strings(ok)
		o := &Outcome{Name: key + "/" + prop + "/callers-under-contract", Func: key, Kind: "scan", Status: "discharged", Detail: "called from " + strings.Join(ok, ", ")}
		if len(bad) > 0 {
			o.Status = "failed"
			o.Detail = "called from functions without a contract for " + prop + ": " + strings.Join(bad, ", ")
		}
		pc.Outcomes = append(pc.Outcomes, o)
	}
	sort.Strings(excluded)
	pc.Extra[prop+"_entry_points"] = entries
	pc.Extra[prop+"_outside_the_claim (genesis, migrations, upgrades)"] = uniq(excluded)
	_ = fmt.Sprint
}

// stableFieldsScan checks the `stablefields` declarations of the packages whose contracts serve
// this property: a listed field of the type is stored to, the whole object is overwritten
// through a pointer, or the pointer is handed to an unmarshaller, only inside the declared
// writers. Objects the function has just allocated itself (locals, composite literals) are
// not shared yet and may be initialised freely.
func (e *Engine) stableFieldsScan(pc *PropertyCheck) {
	used := map[string]bool{}
	for _, ct := range e.Specs.Contracts {
		if contractServes(ct, pc.ID) {
			used[ct.PkgPath] = true
		}
	}
	f := e.Frames()
	for _, sd := range e.Specs.Stable {
		if !used[sd.PkgPath] {
			continue
		}
		name := shortPath(sd.PkgPath) + ".stablefields:" + sd.Type
		t, err := e.Env.LookupType(sd.PkgPath, sd.Type)
		if err != nil {
			pc.Outcomes = append(pc.Outcomes, &Outcome{Name: name, Status: "failed", Kind: "scan", Detail: err.Error()})
			continue
		}
		st, ok := t.Underlying().(*types.Struct)
		if !ok {
			pc.Outcomes = append(pc.Outcomes, &Outcome{Name: name, Status: "failed", Kind: "scan", Detail: "not a struct type"})
			continue
		}
		stable := map[int]bool{}
		for i := 0; i < st.NumFields(); i++ {
			for _, fn := range sd.Fields {
				if st.Field(i).Name() == fn {
					stable[i] = true
				}
			}
		}
		if len(stable) != len(sd.Fields) {
			pc.Outcomes = append(pc.Outcomes, &Outcome{Name: name, Status: "failed", Kind: "scan", Detail: "a listed field does not exist"})
			continue
		}
		writers := map[string]bool{}
		for _, w := range sd.Writers {
			writers[w] = true
		}
		isT := func(pt types.Type) bool {
			p, ok := pt.Underlying().(*types.Pointer)
			return ok && types.Identical(p.Elem(), t)
		}
		local := func(v ssa.Value) bool {
			for {
				switch x := v.(type) {
				case *ssa.Alloc:
					return true
				case *ssa.FieldAddr:
					v = x.X
				case *ssa.IndexAddr:
					v = x.X
				default:
					return false
				}
			}
		}
		var bad []string
		sites := 0
		for _, fn := range f.funcs {
			root := rootFn(fn)
			if isTestOrMock(pkgOfFn(root)) || strings.HasSuffix(e.Prog.Fset.Position(root.Pos()).Filename, "_test.go") || strings.HasSuffix(e.Prog.Fset.Position(root.Pos()).Filename, ".pb.go") {
				continue
			}
			key := sym.FuncKey(root)
			for _, b := range fn.Blocks {
				for _, ins := range b.Instrs {
					hit := ""
					switch x := ins.(type) {
					case *ssa.Store:
						if fa, ok := x.Addr.(*ssa.FieldAddr); ok && isT(fa.X.Type()) && stable[fa.Field] && !local(fa.X) {
							hit = "assigns ." + st.Field(fa.Field).Name()
						} else if isT(x.Addr.Type()) && !local(x.Addr) {
							hit = "overwrites the whole object"
						}
					case ssa.CallInstruction:
						cc := x.Common()
						cn := ""
						if cc.IsInvoke() {
							cn = cc.Method.Name()
						} else if sf, ok := cc.Value.(*ssa.Function); ok {
							cn = sf.Name()
						}
						if strings.Contains(cn, "Unmarshal") {
							for _, a := range cc.Args {
								if mi, ok := a.(*ssa.MakeInterface); ok {
									a = mi.X
								}
								if isT(a.Type()) && !local(a) {
									hit = "unmarshals into the object"
								}
							}
						}
					}
					if hit != "" {
						sites++
						if !writers[key] {
							bad = append(bad, shortPkg(root)+"."+key+" "+hit)
						}
					}
				}
			}
		}
		sort.Strings(bad)
		o := &Outcome{Name: name, Kind: "scan", Status: "discharged", Detail: fmt.Sprintf("fields %v of shared %s objects are assigned only in %v (%d sites)", sd.Fields, sd.Type, sd.Writers, sites)}
		if len(bad) > 0 {
			o.Status = "failed"
			o.Detail = "also written in: " + strings.Join(uniq(bad), "; ")
		}
		pc.Outcomes = append(pc.Outcomes, o)
	}
}
