package engine

import (
	"fmt"
	"sort"
	"strings"

	"govc/sym"

	"golang.org/x/tools/go/ssa"
)

// writerClosure discharges the structural half of an inductive state invariant ("holds after
// every history"): the contracts prove that each function under contract preserves the
// invariant; this scan proves that nothing else can disturb it:
//
//  1. every function of the module that writes the module's store directly (a KV Set/Delete in
//     its own body, closures included) carries a contract with a clause for the property, and
//  2. every static caller of a function under such a contract carries one too, up to the
//     functions marked `entry` (message handlers, whose failure reverts the transaction, and
//     block functions, whose clauses hold on every exit).
//
// Genesis, migration and upgrade code is outside the claim (listed in the evidence): the
// statement is about the running chain.
func (e *Engine) writerClosure(pc *PropertyCheck, prop, module string) {
	f := e.Frames()
	cts := e.Env.Cfg.Contracts
	outside := func(fn *ssa.Function) bool {
		p := pkgOfFn(fn)
		if isTestOrMock(p) || strings.Contains(p, "/migrations") || strings.Contains(p, "/client") || fn.Synthetic != "" {
			return true
		}
		pos := e.Prog.Fset.Position(fn.Pos())
		if strings.HasSuffix(pos.Filename, "_test.go") {
			return true
		}
		n := fn.Name()
		return strings.Contains(n, "InitGenesis") || strings.Contains(n, "ExportGenesis") || strings.HasPrefix(n, "Migrate") || strings.Contains(strings.ToLower(n), "upgrade") || strings.HasPrefix(n, "V") && strings.Contains(n, "Migration")
	}
	served := func(fn *ssa.Function) bool {
		ct := cts[fn]
		return ct != nil && contractServes(ct, prop)
	}
	var excluded []string
	// 1. primitive writers
	prim := map[*ssa.Function]bool{}
	for _, fn := range f.funcs {
		if !f.direct[fn]["store:"+module] {
			continue
		}
		root := rootFn(fn)
		if moduleOf(pkgOfFn(root)) != module {
			continue
		}
		if outside(root) {
			excluded = append(excluded, shortPkg(root)+"."+sym.FuncKey(root))
			continue
		}
		prim[root] = true
	}
	var prims []*ssa.Function
	for fn := range prim {
		prims = append(prims, fn)
	}
	sort.Slice(prims, func(i, j int) bool { return prims[i].String() < prims[j].String() })
	for _, fn := range prims {
		key := shortPkg(fn) + "." + sym.FuncKey(fn)
		o := &Outcome{Name: key + "/" + prop + "/store-writer-under-contract", Func: key, Kind: "scan", Status: "discharged", Detail: "writes store:" + module + " directly; has a contract for " + prop}
		if !served(fn) {
			o.Status = "failed"
			o.Detail = "writes store:" + module + " directly and has no contract clause for " + prop
		}
		pc.Outcomes = append(pc.Outcomes, o)
	}
	// 2. upward closure
	rev := map[*ssa.Function][]*ssa.Function{}
	for caller, callees := range f.edges {
		for _, c := range callees {
			rev[c] = append(rev[c], caller)
		}
	}
	var under []*ssa.Function
	for fn, ct := range cts {
		if contractServes(ct, prop) && moduleOf(pkgOfFn(fn)) == module {
			under = append(under, fn)
		}
	}
	sort.Slice(under, func(i, j int) bool { return under[i].String() < under[j].String() })
	var entries []string
	for _, fn := range under {
		ct := cts[fn]
		key := shortPkg(fn) + "." + sym.FuncKey(fn)
		if ct.Entry {
			entries = append(entries, key)
			continue
		}
		if ct.Reader || !f.closure[fn]["store:"+module] {
			continue // cannot write the module's store (call-graph frame inference)
		}
		var bad, ok []string
		seen := map[*ssa.Function]bool{}
		for _, c := range rev[fn] {
			c = rootFn(c)
			if seen[c] || c == fn {
				continue
			}
			seen[c] = true
			ck := shortPkg(c) + "." + sym.FuncKey(c)
			if outside(c) {
				excluded = append(excluded, ck)
				continue
			}
			if served(c) {
				ok = append(ok, ck)
			} else {
				bad = append(bad, ck)
			}
		}
		sort.Strings(bad)
		sort.Strings(ok)
		o := &Outcome{Name: key + "/" + prop + "/callers-under-contract", Func: key, Kind: "scan", Status: "discharged", Detail: "called from " + strings.Join(ok, ", ")}
		if len(bad) > 0 {
			o.Status = "failed"
			o.Detail = "called from functions without a contract for " + prop + ": " + strings.Join(bad, ", ")
		}
		pc.Outcomes = append(pc.Outcomes, o)
	}
	sort.Strings(excluded)
	pc.Extra[prop+"_entry_points"] = entries
	pc.Extra[prop+"_outside_the_claim (genesis, migrations, upgrades)"] = uniq(excluded)
	_ = fmt.Sprint
}
