package engine

import (
	"go/types"
	"encoding/json"
	"fmt"
	"os"
	"path/filepath"
	"sort"
	"strconv"
	"strings"
	"time"

	"govc/smt"
	"govc/sym"

	"golang.org/x/tools/go/ssa"
)

func VerifDir() string {
	if d := os.Getenv("GOVC_VERIF"); d != "" {
		return d
	}
	return "/verif"
}

// Obligation outcome as recorded in evidence and compared with the baseline.
type Outcome struct {
	Name     string         `json:"name"`
	Func     string         `json:"func,omitempty"`
	Status   string         `json:"status"` // discharged | failed | undecided | outside-subset
	Paths    int            `json:"paths,omitempty"`
	Trivial  int            `json:"trivial_paths,omitempty"`
	Solvers  map[string]int `json:"solvers,omitempty"`
	Seconds  float64        `json:"solver_s,omitempty"`
	MaxQuery float64        `json:"max_query_s,omitempty"`
	Kind     string         `json:"kind,omitempty"` // vc | scan | lemma | bounded
	Detail   string         `json:"detail,omitempty"`
	fail     *ObligStatus
	replay   map[string]interface{}
	keyModel map[string]string
}

type KnownFinding struct {
	Property   string `json:"property"`
	Obligation string `json:"obligation"`
	What       string `json:"what"`
	Witness    string `json:"witness,omitempty"` // substring that must occur in the failing detail/model
	// Characterisation names an obligation stating the exact (defective) behaviour recorded
	// here; the finding counts as "reproduced as listed" only while that obligation still
	// discharges, so a different violation of the same obligation is reported.
	Characterisation string `json:"characterisation,omitempty"`
}

type KnownFile struct {
	Findings []KnownFinding `json:"findings"`
	Fixed    []string       `json:"fixed"`
}

type Baseline struct {
	// property -> obligation names that discharge on the unchanged tree (claimed)
	Claimed map[string][]string `json:"claimed"`
	// property -> obligations that existed on the unchanged tree without discharging (never
	// claimed; exempt from the "new structural failure" rule)
	Unclaimed map[string][]string `json:"unclaimed,omitempty"`
}

func loadJSON(path string, v interface{}) error {
	b, err := os.ReadFile(path)
	if err != nil {
		return err
	}
	return json.Unmarshal(b, v)
}

// PropertyCheck is the result of one property run.
type PropertyCheck struct {
	ID         string
	Tier       string
	Outcomes   []*Outcome
	Funcs      []string
	Trusted    []string
	Assumed    []string
	Bounded    map[string]int
	Aborts     map[string][]string
	Violations []string
	Known      []string
	Start      time.Time
	SolverSecs float64
	Extra      map[string]interface{}
}

func hasTag(name, id string) bool {
	// clause names look like "(Keeper).Repay/ensures:C06/vault-eq" or ".../rowinv:C06,C07/x"
	i := strings.Index(name, ":")
	for i >= 0 {
		rest := name[i+1:]
		j := strings.Index(rest, "/")
		if j > 0 {
			for _, t := range strings.Split(rest[:j], ",") {
				if t == id {
					return true
				}
			}
		}
		k := strings.Index(rest, ":")
		if k < 0 {
			break
		}
		i += 1 + k
	}
	return false
}

func clauseServes(c *sym.Clause, id string) bool {
	for _, t := range c.Tags {
		if t == id {
			return true
		}
	}
	return false
}

// contractServes: a function is under contract for property id when one of its clauses
// carries the id as name prefix.
func contractServes(ct *sym.Contract, id string) bool {
	for _, cs := range [][]*sym.Clause{ct.Requires, ct.Ensures, ct.OnPanic, ct.Mints, ct.Burns, ct.Commutes, ct.Callers} {
		for _, c := range cs {
			if clauseServes(c, id) {
				return true
			}
		}
	}
	return false
}

// RunContracts verifies every function whose contract serves the property and returns the
// per-obligation outcomes. Obligations kept: clauses tagged with the id, plus the untagged
// structural ones of those functions (frame, callee preconditions, row invariants, nopanic).
func (e *Engine) RunContracts(pc *PropertyCheck, timeout time.Duration, maxPaths int) {
	var fns []*ssa.Function
	for fn, ct := range e.Env.Cfg.Contracts {
		if contractServes(ct, pc.ID) && !ct.Trusted {
			fns = append(fns, fn)
		}
	}
	sort.Slice(fns, func(i, j int) bool { return fns[i].String() < fns[j].String() })
	for _, ct := range e.Specs.Contracts {
		if ct.Trusted && !ct.HavocOnly && contractServes(ct, pc.ID) {
			pc.Trusted = append(pc.Trusted, ct.PkgPath+" "+ct.Key)
		}
		// structural clauses of contracts that are not body-checked are still checked
		if ct.Trusted && ct.Fn != nil {
			for _, cl := range ct.Callers {
				if clauseServes(cl, pc.ID) {
					e.callersObligation(pc, ct.Fn, cl)
				}
			}
		}
	}
	// interface contracts that are not derived/trusted are checked against every elys
	// implementation of the interface method
	type job struct {
		fn *ssa.Function
		ct *sym.Contract
	}
	var jobs []job
	for _, fn := range fns {
		jobs = append(jobs, job{fn, e.Env.Cfg.Contracts[fn]})
	}
	for _, ct := range e.Specs.Contracts {
		if ct.Iface && !ct.Trusted && contractServes(ct, pc.ID) {
			impls := e.IfaceImpls(ct)
			if len(impls) == 0 {
				pc.Outcomes = append(pc.Outcomes, &Outcome{Name: "iface:" + ct.Key + "/implementations", Status: "undecided", Kind: "scan", Detail: "no implementation found"})
			}
			for _, fn := range impls {
				jobs = append(jobs, job{fn, ct})
			}
		}
	}
	usedTrusted := map[string]bool{}
	externals := map[string]bool{}
	defer func() {
		var xs []string
		for k := range externals {
			xs = append(xs, k)
		}
		sort.Strings(xs)
		pc.Extra["unmodelled_externals_treated_as_havoc_or_fresh"] = xs
	}()
	for _, jb := range jobs {
		fn, ct := jb.fn, jb.ct
		for _, a := range ct.Assumes {
			pc.Assumed = append(pc.Assumed, "state invariant assumed at entry of "+shortPkg(fn)+"."+sym.FuncKey(fn)+" (not proved inductively): "+a.Src)
		}
		for _, a := range ct.Ensures {
			if a.Assumed && clauseServes(a, pc.ID) {
				pc.Assumed = append(pc.Assumed, "postcondition of "+shortPkg(fn)+"."+sym.FuncKey(fn)+" assumed at its call sites, NOT proved on its body: "+a.Name+": "+a.Src)
			}
		}
		fkey := sym.FuncKey(fn)
		if ct.Iface {
			fkey = "iface:" + ct.Key + "@" + fkey
		}
		full := shortPkg(fn) + "." + fkey
		pc.Funcs = append(pc.Funcs, full)
		for _, cl := range ct.Callers {
			if clauseServes(cl, pc.ID) {
				e.callersObligation(pc, fn, cl)
			}
		}
		fr := e.Env.VerifyFunc(fn, ct, maxPaths)
		for _, cc := range ct.Commutes {
			if !clauseServes(cc, pc.ID) {
				continue
			}
			cr := e.Env.CommuteCheck(fn, ct, cc, maxPaths)
			fr.Paths = append(fr.Paths, cr.Paths...)
			for m, n := range cr.Aborts {
				fr.Aborts["commute: "+m] += n
			}
			if cr.Capped {
				fr.Capped = true
			}
		}
		var obs []*sym.Oblig
		for _, p := range fr.Paths {
			for _, o := range p.Obligs {
				if isOtherPropertyClause(o.Name, pc.ID) {
					continue
				}
				obs = append(obs, o)
			}
			for k := range p.Used {
				usedTrusted[k] = true
			}
			for k := range p.Externals {
				externals[k] = true
			}
		}
		for k, v := range fr.Bounded {
			pc.Bounded[full+": "+k] = v
		}
		incomplete := ""
		if fr.Capped {
			incomplete = fmt.Sprintf("path cap %d reached", maxPaths)
		}
		if ct.LoopBounded {
			onlyLoops := len(fr.Aborts) > 0
			for m := range fr.Aborts {
				if !strings.HasPrefix(m, "loop bound exceeded") {
					onlyLoops = false
				}
			}
			if onlyLoops {
				pc.Bounded[full+": iterations of its store-range loop"] = e.Env.Cfg.MaxBlockVis - 1
				if ct.Unroll > 0 {
					pc.Bounded[full+": iterations of its store-range loop"] = ct.Unroll
				}
				fr.Aborts = nil
			}
		}
		if len(fr.Aborts) > 0 {
			var ms []string
			for m, n := range fr.Aborts {
				ms = append(ms, fmt.Sprintf("%dx %s", n, m))
			}
			sort.Strings(ms)
			pc.Aborts[full] = ms
			incomplete = "outside subset: " + strings.Join(ms, "; ")
		}
		sts := Discharge(obs, timeout, 16)
		seen := map[string]bool{}
		for _, st := range sts {
			o := &Outcome{Name: shortPkg(fn) + "." + st.Name, Func: full, Status: st.Status, Paths: st.Paths, Trivial: st.Trivial, Solvers: st.Solvers, Seconds: round3(st.Seconds), MaxQuery: round3(st.MaxQuery), Kind: "vc"}
			pc.SolverSecs += st.Seconds
			if st.Cover {
				o.Kind = "cover"
				if st.Status != "discharged" {
					o.Detail = "the antecedent of this clause is not reachable on any returning path (vacuous clause)"
				} else if !st.CoverSat {
					o.Detail = fmt.Sprintf("not shown vacuous: no candidate path refuted conclusively, %d undecided by the solvers (reachability not confirmed)", st.CoverUnknown)
				}
			} else if st.Status != "discharged" {
				o.fail = st
				o.Detail = failDetail(st)
			}
			if incomplete != "" && st.Status == "discharged" {
				o.Status = "outside-subset"
				o.Detail = incomplete
			}
			seen[st.Name] = true
			pc.Outcomes = append(pc.Outcomes, o)
		}
		// clauses that produced no obligation on any path (e.g. every path aborted)
		for _, c := range ct.Ensures {
			n := fkey + "/ensures:" + c.Name
			if c.Assumed {
				continue // used at call sites, never an obligation (listed under assumptions)
			}
			if !seen[n] && (clauseServes(c, pc.ID) || len(c.Tags) == 0) {
				st := "outside-subset"
				d := incomplete
				if incomplete == "" {
					st, d = "undecided", "no returning path reached this clause (vacuous)"
				}
				pc.Outcomes = append(pc.Outcomes, &Outcome{Name: shortPkg(fn) + "." + n, Func: full, Status: st, Kind: "vc", Detail: d})
			}
		}
		// vacuity: at least one returning path must exist
		ret := 0
		for _, p := range fr.Paths {
			if p.Outcome == "return" {
				ret++
			}
		}
		cov := &Outcome{Name: shortPkg(fn) + "." + fkey + "/cover:returns", Func: full, Status: "discharged", Kind: "cover", Paths: ret}
		if ret == 0 {
			cov.Status = "undecided"
			cov.Detail = "no returning path: preconditions may be contradictory"
		}
		pc.Outcomes = append(pc.Outcomes, cov)
	}
	for _, l := range e.Specs.Lemmas {
		serves := false
		for _, t := range l.Tags {
			if t == pc.ID {
				serves = true
			}
		}
		if !serves {
			continue
		}
		for _, st := range Discharge(e.Env.CheckLemma(l), timeout, 16) {
			o := &Outcome{Name: shortPath(l.PkgPath) + "." + st.Name, Status: st.Status, Paths: st.Paths, Trivial: st.Trivial, Solvers: st.Solvers, Seconds: round3(st.Seconds), MaxQuery: round3(st.MaxQuery), Kind: "lemma"}
			pc.SolverSecs += st.Seconds
			if st.Status != "discharged" {
				o.fail = st
				o.Detail = failDetail(st)
			}
			pc.Outcomes = append(pc.Outcomes, o)
		}
	}
	for k := range usedTrusted {
		for _, ct := range e.Specs.Contracts {
			if ct.FrameOnly && ct.PkgPath+" "+ct.Key == k {
				e.frameOnlyObligation(pc, ct)
				e.heapFrameScan(pc, ct)
				continue
			}
			if ct.HavocOnly && ct.PkgPath+" "+ct.Key == k {
				e.heapFrameScan(pc, ct)
			}
			if ct.Trusted && !ct.HavocOnly && ct.PkgPath+" "+ct.Key == k {
				why := "trusted contract used"
				if ct.Derived != "" {
					why = "derived (not body-checked) contract used [" + ct.Derived + "]"
				}
				pc.Assumed = append(pc.Assumed, why+": "+shortPath(ct.PkgPath)+" "+ct.Key)
			}
		}
	}
	sort.Strings(pc.Assumed)
}

// isOtherPropertyClause: the obligation is an ensures/onpanic clause tagged only with other
// property ids (it is checked by those properties' runs).
func isOtherPropertyClause(name, id string) bool {
	for _, kind := range []string{"/ensures:", "/onpanic:", "/invariant:", "/rowinv:", "/lemma:", "/mints:", "/burns:", "/cover:commutes:", "/cover:", "/commutes:"} {
		i := strings.Index(name, kind)
		if i < 0 {
			continue
		}
		rest := name[i+len(kind):]
		j := strings.Index(rest, "/")
		if j <= 0 {
			return false // untagged
		}
		tags := strings.Split(rest[:j], ",")
		isTag := true
		for _, t := range tags {
			if len(t) < 3 || t[0] != 'C' {
				isTag = false
			}
			if _, err := strconv.Atoi(strings.TrimPrefix(t, "C")); err != nil {
				isTag = false
			}
		}
		if !isTag {
			return false
		}
		for _, t := range tags {
			if t == id {
				return false
			}
		}
		return true
	}
	return false
}

func failDetail(st *ObligStatus) string {
	var sb strings.Builder
	if st.Failing != nil {
		fmt.Fprintf(&sb, "path=%s", st.Failing.Path)
		if st.Failing.Note != "" {
			fmt.Fprintf(&sb, " note=%s", st.Failing.Note)
		}
	}
	if st.Result != nil {
		fmt.Fprintf(&sb, " solver=%s %v", st.Result.Status, st.Result.All)
	}
	return sb.String()
}

func shortPkg(fn *ssa.Function) string {
	if fn.Pkg != nil {
		return shortPath(fn.Pkg.Pkg.Path())
	}
	if fn.Object() != nil && fn.Object().Pkg() != nil {
		return shortPath(fn.Object().Pkg().Path())
	}
	return "?"
}

func shortPath(p string) string {
	return strings.TrimPrefix(p, ElysMod+"/")
}

func round3(f float64) float64 { return float64(int(f*1000+0.5)) / 1000 }

// Finish compares outcomes with the baseline and the known findings, writes replay files
// and the evidence file, prints the verdict lines and returns the exit code.
func (e *Engine) Finish(pc *PropertyCheck, level, technique string, extraAssumptions []string) int {
	vdir := VerifDir()
	var base Baseline
	_ = loadJSON(filepath.Join(vdir, "baseline", "obligations.json"), &base)
	var known KnownFile
	_ = loadJSON(filepath.Join(vdir, "known_findings.json"), &known)
	unclaimedAtBaseline := map[string]bool{}
	{
		var b0 Baseline
		if loadJSON(filepath.Join(VerifDir(), "baseline", "obligations.json"), &b0) == nil {
			for _, n := range b0.Unclaimed[pc.ID] {
				unclaimedAtBaseline[n] = true
			}
		}
	}
	claimed := map[string]bool{}
	for _, n := range base.Claimed[pc.ID] {
		claimed[n] = true
	}
	byName := map[string]*Outcome{}
	for _, o := range pc.Outcomes {
		// several outcomes may share a name (same clause checked by a scan twice): keep worst
		if old, ok := byName[o.Name]; ok && rank(old.Status) >= rank(o.Status) {
			continue
		}
		byName[o.Name] = o
	}
	exit := 0
	os.MkdirAll(filepath.Join(vdir, "replays", pc.ID), 0o755)
	knownHit := map[int]bool{}
	names := make([]string, 0, len(byName))
	for n := range byName {
		names = append(names, n)
	}
	sort.Strings(names)
	matches := func(k KnownFinding, o *Outcome) bool {
		if k.Property != pc.ID || k.Obligation != o.Name || o.Status == "discharged" {
			return false
		}
		if k.Witness != "" && !strings.Contains(o.Detail, k.Witness) && !replayContains(o, k.Witness) {
			return false
		}
		if k.Characterisation != "" {
			c := byName[k.Characterisation]
			if c == nil || c.Status != "discharged" {
				return false
			}
		}
		return true
	}
	report := func(o *Outcome, reason string) {
		// known finding?
		for i, k := range known.Findings {
			if matches(k, o) {
				{
					if o.replay != nil {
						e.writeReplay(pc, o, "known finding (recorded in known_findings.json)")
					}
					if !knownHit[i] {
						knownHit[i] = true
						line := fmt.Sprintf("KNOWN-FINDING: property=%s %s — %s", pc.ID, o.Name, k.What)
						fmt.Println(line)
						pc.Known = append(pc.Known, line)
					}
					return
				}
			}
		}
		if o.Status == "failed" && o.replay == nil {
			if rec := e.RunReplay(o); rec != nil {
				o.replay = rec
			}
		}
		rp := e.writeReplay(pc, o, reason)
		suffix := ""
		if o.Status != "failed" || !e.replayable(o) {
			suffix = " no-failing-input-found"
		}
		line := fmt.Sprintf("VIOLATION property=%s replay=%s obligation=%q status=%s%s", pc.ID, rp, o.Name, o.Status, suffix)
		fmt.Println(line)
		pc.Violations = append(pc.Violations, line)
		exit = 1
	}
	for _, n := range names {
		o := byName[n]
		if o.Status == "discharged" || strings.Contains(n, "/known-defect-") {
			continue
		}
		if (os.Getenv("GOVC_REPLAY_ALL") != "" || pc.Tier == "thorough") && o.Status == "failed" && o.replay == nil {
			if rec := e.RunReplay(o); rec != nil {
				o.replay = rec
				fmt.Printf("REPLAY %s: %v\n", o.Name, rec["real_code_replay"])
				if rec["error"] != nil {
					fmt.Printf("REPLAY error: %v\n", rec["error"])
				}
				e.writeReplay(pc, o, "replay of a failed obligation")
			}
		}
		if claimed[n] {
			report(o, "claimed obligation no longer discharges")
		} else {
			// never-claimed obligation: known finding or silently undecided (listed in evidence)
			isKnown := false
			for i, k := range known.Findings {
				if matches(k, o) {
					isKnown = true
					if o.replay != nil {
						e.writeReplay(pc, o, "known finding (recorded in known_findings.json)")
					}
					if !knownHit[i] {
						knownHit[i] = true
						line := fmt.Sprintf("KNOWN-FINDING: property=%s %s — %s", pc.ID, o.Name, k.What)
						fmt.Println(line)
						pc.Known = append(pc.Known, line)
					}
				}
			}
			// a definite structural failure found by an enumeration (a new mint site without a
			// classifying contract, a handler that never compares its authority, ...) is a
			// violation even though no baseline entry names it: the enumeration is the claim
			if !isKnown && o.Kind == "scan" && o.Status == "failed" {
				report(o, "structural scan failure")
				continue
			}
			// frame, callee-precondition, row-invariant and no-panic obligations exist only where
			// the code performs the operation: one that appears and definitely fails on a function
			// under this property's contracts was not there (or not failing) on the unchanged tree
			if !isKnown && o.Status == "failed" && isStructuralName(n) && !unclaimedAtBaseline[n] {
				report(o, "new structural obligation fails")
				continue
			}
			// an obligation listed as a known finding that now fails in a way the listing does
			// not describe is a different violation of the property
			if !isKnown {
				for _, k := range known.Findings {
					if k.Property == pc.ID && k.Obligation == o.Name {
						report(o, "fails differently from the recorded known finding")
						break
					}
				}
			}
		}
	}
	// claimed obligations that vanished: the function or clause is gone
	var stale []string
	for n := range claimed {
		if _, ok := byName[n]; !ok {
			stale = append(stale, n)
		}
	}
	sort.Strings(stale)
	for _, n := range stale {
		o := &Outcome{Name: n, Status: "undecided", Detail: "claimed obligation was not generated on this tree (function under contract missing, renamed, or no longer reaches this clause)"}
		report(o, "claimed obligation missing")
	}
	// a known finding that no longer reproduces is reported (canary)
	for i, k := range known.Findings {
		if k.Property == pc.ID && !knownHit[i] {
			fmt.Printf("NOTE: known finding %q did not reproduce on this tree (obligation now %s)\n", k.Obligation, statusOf(byName[k.Obligation]))
		}
	}
	e.writeEvidence(pc, level, technique, claimed, extraAssumptions)
	total, dis := 0, 0
	for _, o := range byName {
		if claimed[o.Name] {
			total++
			if o.Status == "discharged" {
				dis++
			}
		}
	}
	fmt.Printf("property %s: %d obligations generated, %d claimed, %d of the claimed discharged, %d known findings, %d violations (%.1fs)\n",
		pc.ID, len(byName), total, dis, len(pc.Known), len(pc.Violations), time.Since(pc.Start).Seconds())
	if total == 0 {
		fmt.Printf("VIOLATION property=%s replay=%s obligation=%q status=vacuous no-failing-input-found\n", pc.ID, filepath.Join(vdir, "replays", pc.ID, "vacuous.json"), "no claimed obligations generated")
		return 1
	}
	return exit
}

func statusOf(o *Outcome) string {
	if o == nil {
		return "absent"
	}
	return o.Status
}

func rank(s string) int {
	switch s {
	case "failed":
		return 3
	case "undecided", "outside-subset":
		return 2
	}
	return 0
}

func replayContains(o *Outcome, w string) bool {
	if o.fail == nil || o.fail.Result == nil {
		return false
	}
	for k, v := range o.fail.Result.Model {
		if strings.Contains(k+"="+v, w) {
			return true
		}
	}
	return false
}

func (e *Engine) replayable(o *Outcome) bool {
	c, _ := o.replay["confirmed"].(bool)
	return o.replay != nil && c
}

func safeName(s string) string {
	r := strings.NewReplacer("/", "_", " ", "_", "(", "", ")", "", "*", "p", ":", "_", "#", "_", ",", "_", "\"", "")
	s = r.Replace(s)
	if len(s) > 150 {
		s = s[:150]
	}
	return s
}

func (e *Engine) writeReplay(pc *PropertyCheck, o *Outcome, reason string) string {
	vdir := VerifDir()
	path := filepath.Join(vdir, "replays", pc.ID, safeName(o.Name)+".json")
	rp := map[string]interface{}{
		"property":   pc.ID,
		"obligation": o.Name,
		"status":     o.Status,
		"reason":     reason,
		"detail":     o.Detail,
		"function":   o.Func,
	}
	if o.fail != nil {
		if o.fail.Failing != nil {
			rp["path_decisions"] = o.fail.Failing.Path
			rp["goal"] = truncate(o.fail.Failing.Goal.String(), 4000)
			rp["note"] = o.fail.Failing.Note
		}
		if o.fail.Result != nil {
			rp["solver_status"] = o.fail.Result.Status
			rp["solver_all"] = o.fail.Result.All
			rp["solver_output"] = truncate(o.fail.Result.Output, 4000)
			if o.fail.Result.Model != nil {
				rp["model"] = o.fail.Result.Model
			}
		}
		rp["smt2"] = truncate(o.fail.Script, 200000)
	}
	for k, v := range o.replay {
		rp[k] = v
	}
	b, _ := json.MarshalIndent(rp, "", " ")
	os.WriteFile(path, b, 0o644)
	return path
}

func truncate(s string, n int) string {
	if len(s) > n {
		return s[:n] + "…"
	}
	return s
}

func (e *Engine) writeEvidence(pc *PropertyCheck, level, technique string, claimed map[string]bool, extraAssumptions []string) {
	vdir := VerifDir()
	os.MkdirAll(filepath.Join(vdir, "evidence"), 0o755)
	seed := 0
	if s := os.Getenv("VERIF_SEED"); s != "" {
		seed, _ = strconv.Atoi(s)
	}
	byStatus := map[string]int{}
	bySolver := map[string]int{}
	nClaimed, nDis := 0, 0
	var samples []interface{}
	var undecided []interface{}
	names := map[string]bool{}
	for _, o := range pc.Outcomes {
		if names[o.Name] {
			continue
		}
		names[o.Name] = true
		byStatus[o.Status]++
		for s, n := range o.Solvers {
			bySolver[s] += n
		}
		if claimed[o.Name] {
			nClaimed++
			if o.Status == "discharged" {
				nDis++
			}
		}
		if len(samples) < 6 && o.Status == "discharged" && o.Kind != "cover" && (o.Paths > o.Trivial || o.Kind != "vc") {
			samples = append(samples, map[string]interface{}{"obligation": o.Name, "kind": o.Kind, "paths": o.Paths, "paths_trivially_true": o.Trivial, "solvers": o.Solvers, "solver_s": o.Seconds, "detail": o.Detail})
		}
		if o.Status != "discharged" {
			undecided = append(undecided, map[string]interface{}{"obligation": o.Name, "status": o.Status, "claimed": claimed[o.Name], "detail": truncate(o.Detail, 400)})
		}
	}
	if len(samples) == 0 {
		for _, o := range pc.Outcomes {
			if len(samples) < 3 {
				samples = append(samples, map[string]interface{}{"obligation": o.Name, "status": o.Status, "kind": o.Kind})
			}
		}
	}
	assumptions := []string{
		"T1 SDK baseapp: per-message atomicity (a handler's writes are dropped when it returns an error or panics)",
		"T5 store accessors: KV get/set/delete semantics, codec round trip, key builders of distinct families never collide and each is injective (except where C16 checks this)",
		"T6 address constructors (module, pool, position, order addresses) are injective with pairwise disjoint ranges; users cannot sign as derived addresses",
		"T7 genesis state satisfies every invariant (induction base not checked)",
		"machine integers (int64/uint64/int) are treated as mathematical integers: wrap-around is not modelled; sdkmath.Int 256-bit overflow panics are not modelled",
		"gas metering, events, logging and telemetry are treated as effect-free",
		"termination is not proved",
		"a callee used by contract is taken to return (normally or with an error): a panic inside a by-contract callee is not propagated to a recover handler of its caller; panics are followed through code executed in line only",
		"T9 the VC generator itself (mitigated by the must-fail corpus in /verif/selftest)",
	}
	assumptions = append(assumptions, extraAssumptions...)
	assumptions = append(assumptions, pc.Assumed...)
	for _, t := range pc.Trusted {
		assumptions = append(assumptions, "trusted (unverified) contract: "+shortPath(t))
	}
	var bounded []string
	for k, v := range pc.Bounded {
		bounded = append(bounded, fmt.Sprintf("%s <= %d elements", k, v))
	}
	sort.Strings(bounded)
	for _, b := range bounded {
		assumptions = append(assumptions, "BOUNDED (not a proof beyond the bound): symbolic collection "+b)
	}
	// the slowest single solver queries: what would go undecided first on a slower machine
	var slow []*Outcome
	for _, o := range pc.Outcomes {
		if o.MaxQuery >= 1 {
			slow = append(slow, o)
		}
	}
	sort.Slice(slow, func(i, j int) bool { return slow[i].MaxQuery > slow[j].MaxQuery })
	var slowest []interface{}
	for i, o := range slow {
		if i < 8 {
			slowest = append(slowest, map[string]interface{}{"obligation": o.Name, "max_query_s": o.MaxQuery})
		}
	}
	cov := map[string]interface{}{
		"slowest_queries_over_1s":   slowest,
		"obligations":               nClaimed,
		"discharged":                nDis,
		"obligations_generated":     len(names),
		"by_status":                 byStatus,
		"discharged_by_backend":     bySolver,
		"solver_seconds":            round3(pc.SolverSecs),
		"checker_cmd":               "govc check " + pc.ID + " --tier " + pc.Tier + "  (weakest-precondition style path VCs over go/ssa of /repo's working tree; z3 5.1.0, z3 4.8.12, cvc5 1.0.3 raced per VC)",
		"trusted_base":              assumptions,
		"functions_under_contract":  pc.Funcs,
		"samples":                   samples,
		"not_discharged":            undecided,
		"bounded_collections":       bounded,
		"outside_subset":            pc.Aborts,
		"known_findings_reproduced": pc.Known,
		"contract_files":            relFiles(e.Specs.Files, e.Repo),
		"load_seconds":              round3(e.LoadSecs),
	}
	for k, v := range pc.Extra {
		cov[k] = v
	}
	ev := map[string]interface{}{
		"property_id": pc.ID,
		"tier":        pc.Tier,
		"seed":        seed,
		"level":       level,
		"technique":   technique,
		"coverage":    cov,
		"assumptions": assumptions,
		"wall_s":      round3(time.Since(pc.Start).Seconds()),
		"violations":  len(pc.Violations),
	}
	b, _ := json.MarshalIndent(ev, "", " ")
	os.WriteFile(filepath.Join(vdir, "evidence", pc.ID+".json"), b, 0o644)
}

func relFiles(fs []string, root string) []string {
	var out []string
	for _, f := range fs {
		r, err := filepath.Rel(root, f)
		if err != nil {
			r = f
		}
		out = append(out, r)
	}
	return out
}

var _ = smt.True

// frameOnlyObligation: the declared module-level modifies clause of a frame-only contract
// must cover the inferred may-write set of the function.
func (e *Engine) frameOnlyObligation(pc *PropertyCheck, ct *sym.Contract) {
	name := shortPath(ct.PkgPath) + "." + ct.Key + "/frame-inferred"
	if ct.Fn == nil {
		pc.Outcomes = append(pc.Outcomes, &Outcome{Name: name, Status: "undecided", Kind: "scan", Detail: "function not found"})
		return
	}
	declared := map[string]bool{}
	world := false
	for _, m := range ct.Modifies {
		m = strings.TrimSpace(m)
		switch {
		case m == "world":
			world = true
		case m == "bank":
			declared["bank"] = true
			declared["bank:supply"] = true
		case m == "bank-balances":
			declared["bank"] = true
		case strings.HasPrefix(m, "module:"):
			declared["store:"+strings.TrimPrefix(m, "module:")] = true
		case strings.HasPrefix(m, "table:"):
			t := m
			if i := strings.Index(t, "["); i >= 0 {
				continue // a row-level item does not cover the table
			}
			declared[t] = true
		}
	}
	var missing []string
	eff := e.Frames().MayWrite(ct.Fn)
	if !world {
		for _, x := range eff {
			ok := declared[x]
			if !ok && strings.HasPrefix(x, "table:") {
				// covered by the module-level item
				mod := strings.TrimPrefix(x, "table:")
				mod = strings.TrimSuffix(mod[:strings.Index(mod, ":")], "~")
				ok = declared["store:"+mod]
			}
			if !ok {
				missing = append(missing, x)
			}
		}
	}
	o := &Outcome{Name: name, Func: shortPath(ct.PkgPath) + "." + ct.Key, Status: "discharged", Kind: "scan", Detail: "inferred may-write set " + fmt.Sprint(eff) + " is covered by the modifies clause"}
	if len(missing) > 0 {
		o.Status = "failed"
		o.Detail = "the function may write " + fmt.Sprint(missing) + " (call-graph inference), which its modifies clause does not list"
	}
	pc.Outcomes = append(pc.Outcomes, o)
}

// heapFrameScan: a contract that is not checked against the body (frame-only, havoc-only) must
// list `*p` for every pointer parameter p through which the function could write: p (or an
// address derived from it) is the target of a store or is handed to another call. Sufficient,
// conservative, intra-procedural.
func (e *Engine) heapFrameScan(pc *PropertyCheck, ct *sym.Contract) {
	fn := ct.Fn
	if fn == nil || len(fn.Blocks) == 0 {
		return
	}
	declared := map[string]bool{}
	for _, m := range ct.Modifies {
		m = strings.TrimSpace(m)
		if i := strings.Index(m, " if "); i >= 0 {
			m = m[:i]
		}
		if strings.HasPrefix(m, "*") {
			n := strings.TrimPrefix(m, "*")
			if j := strings.Index(n, "."); j >= 0 {
				continue // a field-level item does not cover the whole object
			}
			declared[n] = true
		}
	}
	var missing []string
	for i, p := range fn.Params {
		pt, ok := p.Type().Underlying().(*types.Pointer)
		if !ok {
			continue
		}
		if _, isStruct := pt.Elem().Underlying().(*types.Struct); !isStruct {
			continue
		}
		if n, ok := pt.Elem().(*types.Named); ok {
			switch n.Obj().Name() {
			case "Keeper", "msgServer", "Querier", "AppModule":
				continue
			}
		}
		name := p.Name()
		if name == "" {
			name = fmt.Sprintf("arg%d", i)
		}
		if declared[name] {
			continue
		}
		if mayWriteThrough(fn, p) {
			missing = append(missing, "*"+name)
		}
	}
	name := shortPath(ct.PkgPath) + "." + ct.Key + "/frame-heap-listed"
	o := &Outcome{Name: name, Func: shortPath(ct.PkgPath) + "." + ct.Key, Status: "discharged", Kind: "scan", Detail: "every pointer parameter the body could write through is listed in the modifies clause"}
	if len(missing) > 0 {
		o.Status = "failed"
		o.Detail = "the body may write through " + strings.Join(missing, ", ") + " (stored to, or handed to a call), which the modifies clause of this unchecked contract does not list"
	}
	pc.Outcomes = append(pc.Outcomes, o)
}

// mayWriteThrough: some address derived from p is stored to, or handed to a callee that may
// write through the corresponding parameter (followed into elys callees; any other callee
// receiving the pointer counts as a writer). Least fixpoint over recursion.
var mwtMemo = map[*ssa.Parameter]int{} // 0 unknown, 1 in progress, 2 no, 3 yes

func mayWriteThrough(fn *ssa.Function, p *ssa.Parameter) bool {
	switch mwtMemo[p] {
	case 1, 2:
		return false
	case 3:
		return true
	}
	mwtMemo[p] = 1
	r := mayWriteThrough1(fn, p)
	if r {
		mwtMemo[p] = 3
	} else {
		mwtMemo[p] = 2
	}
	return r
}

func mayWriteThrough1(fn *ssa.Function, p *ssa.Parameter) bool {
	derived := map[ssa.Value]bool{p: true}
	changed := true
	for changed {
		changed = false
		for _, b := range fn.Blocks {
			for _, ins := range b.Instrs {
				var src ssa.Value
				switch x := ins.(type) {
				case *ssa.FieldAddr:
					src = x.X
				case *ssa.IndexAddr:
					src = x.X
				case *ssa.Phi:
					for _, e := range x.Edges {
						if derived[e] {
							src = e
						}
					}
				case *ssa.ChangeType:
					src = x.X
				case *ssa.MakeInterface:
					src = x.X
				}
				if src != nil && derived[src] {
					if v, ok := ins.(ssa.Value); ok && !derived[v] {
						derived[v] = true
						changed = true
					}
				}
			}
		}
	}
	for _, b := range fn.Blocks {
		for _, ins := range b.Instrs {
			switch x := ins.(type) {
			case *ssa.Store:
				if derived[x.Addr] {
					return true
				}
				if derived[x.Val] {
					return true // the pointer itself is stored somewhere: it escapes
				}
			case *ssa.MakeClosure:
				for _, bnd := range x.Bindings {
					if derived[bnd] {
						return true
					}
				}
			case ssa.CallInstruction:
				cc := x.Common()
				if cc.IsInvoke() {
					if derived[cc.Value] {
						return true
					}
					for _, a := range cc.Args {
						if derived[a] {
							return true
						}
					}
					continue
				}
				callee, _ := cc.Value.(*ssa.Function)
				for i, a := range cc.Args {
					if !derived[a] {
						continue
					}
					if callee == nil || len(callee.Blocks) == 0 || i >= len(callee.Params) {
						if callee != nil && readOnlyExternal(callee.String()) {
							continue
						}
						return true
					}
					if mayWriteThrough(callee, callee.Params[i]) {
						return true
					}
				}
			}
		}
	}
	return false
}

// readOnlyExternal: library functions that only read through a pointer argument.
func readOnlyExternal(name string) bool {
	for _, s := range []string{").String", ").Marshal", ").MustMarshal", "fmt.Sprintf", "fmt.Errorf", ").Size", ").Validate", "proto.CompactTextString", "errors.Wrapf", "errors.Wrap"} {
		if strings.HasSuffix(name, s) || strings.Contains(name, s+"(") {
			return true
		}
	}
	return false
}

// callersObligation: the static callers of fn (in the SSA of all elys packages, tests and
// mocks excluded) are exactly among the functions the clause lists.
func (e *Engine) callersObligation(pc *PropertyCheck, fn *ssa.Function, cl *sym.Clause) {
	allowed := map[string]bool{}
	for _, a := range strings.Split(cl.Src, ",") {
		if a = strings.ReplaceAll(strings.TrimSpace(a), " ", ""); a != "" {
			allowed[a] = true
		}
	}
	f := e.Frames()
	var bad, seen []string
	for caller, callees := range f.edges {
		for _, c := range callees {
			if c != fn {
				continue
			}
			root := rootFn(caller)
			p := e.Prog.Fset.Position(root.Pos())
			if strings.HasSuffix(p.Filename, "_test.go") || isTestOrMock(pkgOfFn(root)) || root.Synthetic != "" {
				continue
			}
			k := sym.FuncKey(root)
			seen = append(seen, shortPkg(root)+"."+k)
			if !allowed[k] && root != fn {
				bad = append(bad, shortPkg(root)+"."+k)
			}
		}
	}
	sort.Strings(bad)
	sort.Strings(seen)
	name := shortPkg(fn) + "." + sym.FuncKey(fn) + "/callers:" + cl.Name
	o := &Outcome{Name: name, Func: shortPkg(fn) + "." + sym.FuncKey(fn), Status: "discharged", Kind: "scan", Detail: "called only from " + strings.Join(uniq(seen), ", ")}
	if len(bad) > 0 {
		o.Status = "failed"
		o.Detail = "also called from " + strings.Join(uniq(bad), ", ")
	}
	pc.Outcomes = append(pc.Outcomes, o)
}

func uniq(xs []string) []string {
	var out []string
	for i, x := range xs {
		if i == 0 || x != xs[i-1] {
			out = append(out, x)
		}
	}
	return out
}

func isStructuralName(n string) bool {
	for _, k := range []string{"/frame:", "/pre:", "/rowinv:", "/nopanic"} {
		if strings.Contains(n, k) {
			return true
		}
	}
	return false
}
