#!/usr/bin/env python3
"""Regenerates /verif/MANIFEST.json from the table below (kept in one place so the file is
always schema-valid). Run: python3 tools/mk_manifest.py"""
import json, os, subprocess
V = os.path.dirname(os.path.dirname(os.path.abspath(__file__)))

TECH = "contract-based deductive verification (govc: path VCs over go/ssa of the real code, contracts in //@ comment files, z3/cvc5)"
COMMON_NOTE = ("Trusted base: SDK baseapp atomicity, bank keeper contract, sdk.Coins/sdkmath semantics as modelled in govc/sym/models_*.go, "
               "store accessor semantics and key-family disjointness, derived-address disjointness, genesis satisfies the invariant, "
               "machine integers as mathematical integers, the VC generator itself. ")

claimed = {
 "C02": dict(
   text="Proof by gap contracts and a writer-closure scan. (a) For every pool, `pool.TotalShares - supply(share token)` is unchanged by every function that can write the amm pool table: join, exit, pool creation, the reserve updates of swaps and of perpetual transfers (on every exit, since swaps never touch shares or supplies), pool-parameter and external-liquidity updates; the type-level JoinPool / ExitPool / IncreaseLiquidity / DecreaseLiquidity move the share total by exactly the shares minted or burnt; each swap hop works on a pool whose share total is the stored one (the routing functions re-read the pool before each hop). (b) `supply - balance of the commitment custody account` is unchanged by join, exit and creation (minted shares are committed at once, exiting shares are uncommitted and then burnt), and CommitLiquidTokens / UncommitTokens move exactly the amount between the account and custody and adjust the account's committed amount and the per-denom sum by exactly that amount (C12's ledger clauses, which also serve this property). The closure scan follows callers across modules (leveragelp open/close chain) up to the message handlers and block functions.",
   note=COMMON_NOTE + "Perpetual's SendToAmmPool/SendFromAmmPool callers are assumed to hand in the amm pool object they read in the same transaction (`callers-assumed`, listed in the evidence); GetNextPoolId and GetBestPoolWithDenoms postconditions are trusted (store iteration); transaction signers and position owners are not the commitment module account (T6); the close path of leveragelp claims (a) only (the reward payout is summarised as transfers without mint/burn). Collections bounded to 2 (routes, fee coins, pool assets) where the code iterates them. Eden/EdenB are not pool shares and are outside this property.",
   ref="§A.4 C02"),
 "C04": dict(
   text="Proof of the settlement half on the real swap chain, plus structural obligations on the batch. Accepting a swap message changes nothing but the module's transient request queue (the dry run is on a discarded cache context). One hop (InternalSwapExactAmountIn/Out through UpdatePoolForSwap, fee collection and fee conversion included): for user sender and recipient the sender is debited exactly the input in the input denom, the recipient is credited at least the output (more only through the rebalance bonus), exact-in succeeds only with output >= the stated minimum and exact-out only with input <= the stated maximum, no other user's balance moves and no other denom of sender or recipient moves; the quoted coins are in the asked denoms. Routes: single-hop exact-in and exact-out and two-hop exact-in (sender != recipient) settle as requested end to end. Batch: queued requests are applied only by ExecuteSwapRequests, each on its own fresh cache context, and a cache context is written only on the `err == nil` side of its own application (SSA dominance scan), so a request that cannot be honoured changes no balance.",
   note=COMMON_NOTE + "NOT decided: that every attempted request is removed from the queue and attempted at most once (the batch loop runs until the queue is empty; unbounded loops over store state need loop invariants, which were not built) - the queue lives in the transient store, which the SDK clears at the end of the block (T1). Routes bounded to 2 hops (labelled bounded); two-hop exact-out and sender == recipient multi-hop are not claimed. Recipients that are the pool's own accounts are outside the claim (isUser).",
   ref="§A.4 C04"),
 "C06": dict(
   text="Proof (per-function, unbounded in amounts and number of debts): every stablestake function that writes Params.TotalValue, a Debt row or moves the module's deposit-denom cash (Bond, Unbond, Borrow, Repay, UpdateInterestStacked, GetInterest) preserves TotalValue - cash - Σdebts exactly on every committing path; Σ over all borrowers is a ghost aggregate maintained by the table-write semantics.",
   note=COMMON_NOTE + "Induction over histories is closed only over the listed functions (see evidence.functions_under_contract); callers in other modules reach the footprint only through them.",
   ref="§8 C06"),
 "C07": dict(
   text="Proof of the issuance/redemption rule and the lending cap on the real handlers: Bond mints exactly RoundInt(amount / liveRate) shares to the depositor (liveRate = TotalValue/share supply read at the call, 1 for an empty vault) and takes exactly the deposit; Unbond burns the shares and pays exactly RoundInt(shares * liveRate), lowering TotalValue by the same figure; GetRedemptionRate is value per share; Borrow refuses any loan with 10*(outstanding+amount) > 9*TotalValue (exact integer statement). The quantitative round-trip/dilution bounds (one share's worth) are NOT proved here: they need a numerical-analysis argument over nested 18-digit roundings that the solvers do not decide (tried in design, §1); what is proved is that both directions use the same live rate with the stated rounding, which is what a change of rate source, rounding direction or ordering breaks.",
   note=COMMON_NOTE + "Fixed-point products/quotients of two symbolic operands are uninterpreted (sign/zero/unit facts only) in these obligations; postconditions are stated over the same terms. Hook effects come from call-graph frame inference.",
   ref="§8 C07"),
 "C08": dict(
   text="Proof by induction over the leveragelp writers, unbounded in amounts and in the number of pools and positions: two ghost aggregates maintained by the table-write semantics (per-pool sum of the stored positions' LeveragedLpAmount, number of stored positions) and the gap contracts `pool.LeveragedLpAmount - sum` and `OpenPositionCount - count` unchanged across SetPosition/DestroyPosition (counter), ProcessOpenLong, OpenLong, OpenConsolidate, Open, ForceCloseLong (with: full close removes the row, partial close keeps exactly the rest), CloseLong, Close, CheckAndLiquidateUnhealthyPosition and CheckAndCloseAtStopLoss (on EVERY exit, since their callers swallow errors), ClosePositions, BeginBlocker, AddPool, RemovePool, UpdateStopLoss, add-collateral; row-level frames on the close helpers; a closure scan on the SSA call graph shows that every function writing the leveragelp store, and every caller of a function under contract up to the entry points, is under contract. The per-position shares-at-the-position-address clause of the statement is NOT claimed (it needs functional contracts on amm join/exit and the commitment ledger together). A genuine defect (a liquidation failing midway was committed by the callers that log the error and go on) was found by a failing obligation, reproduced on the real keeper and repaired by a fix: commit.",
   note=COMMON_NOTE + "BeginBlocker's page of positions is bounded to 2 entries and ClosePositions' two request lists to 1 entry each (labelled bounded); GetPositions' postcondition (a page of stored rows without repeats) is trusted (SDK pagination); amm JoinPoolNoSwap/ExitPool, masterchef ClaimRewards, GetPositionHealth and LpTokenPrice enter by frame-only contracts checked against the call-graph inference; `OpenPositionCount > 0 whenever a position exists` and `no row is stored above the id counter` are assumed at entry (consequences of the invariant itself and of id allocation). Genesis and migrations are outside the claim.",
   ref="§8 C08"),
 "C10": dict(
   text="Proof of the authorisation boundary on the real helpers, for all numeric states: leveragelp CheckAndLiquidateUnhealthyPosition attempts a close only when the health it has just computed is <= the safety factor (and otherwise leaves the bank, the position's shares and collateral and every debt principal untouched); leveragelp CheckAndCloseAtStopLoss only when the pool-share price it has just read is <= the stored stop-loss; perpetual CheckAndLiquidateUnhealthyPosition / CheckAndCloseAtStopLoss / CheckAndCloseAtTakeProfit call ForceCloseLong/Short only behind the corresponding comparison for the position's side, and a position off its stop-loss / take-profit leaves the whole state unchanged; every successful leveragelp open / consolidating re-open and perpetual ProcessOpen / OpenConsolidate stores a health strictly above the safety factor read at that moment, the health being the module's own health function evaluated at that moment; user closes look the position up under the sender's own address; `callers` clauses show the force-close and repay functions are reachable only through these gates or the owner's close.",
   note=COMMON_NOTE + "The health, price and safety-factor values are the results of the module's own functions (GetPositionHealth is checked to move no principal; perpetual GetMTPHealth, settlement and close helpers enter through frame contracts checked against the call-graph inference, with every pointer parameter listed and the identity fields of an MTP shown never reassigned by a store scan). That those health functions compute the economically right number is not part of this check. Nil decimals are not modelled (IsNil is false).",
   ref="§8 C10"),
 "C12": dict(
   text="Proof, with the per-account ledger collections bounded to 2 entries x 2 lock-ups in the type-level obligations (labelled bounded in the evidence) and unbounded at keeper level: AddCommittedTokens/DeductFromCommitted/GetCommittedAmountForDenom against the ledger spec functions (exact committed delta, lock-up recorded, lock respected unless liquidation, no overdraw); CommitLiquidTokens/UncommitTokens keep Params.TotalCommitted - Σ committed, the account delta, and module custody - Σ committed - Σ claimed exactly, for every denom except Eden/EdenB (whose hooks enter the SDK). One genuine defect is recorded as a known finding (UncommitTokens adds to TotalCommitted).",
   note=COMMON_NOTE + "CommitmentChanged hook frame is checked against the estaking implementation; other commitment hooks are read as arbitrary state change. Eden/EdenB paths are not claimed.",
   ref="§8 C12"),
 "C14": dict(
   text="Proof (vesting lists bounded to 2 entries in the keeper-level obligations, labelled bounded): VestedSoFar equals the linear spec function for all inputs and never panics; schedule lemmas (monotone, within [0,Total], complete) on the spec function; ClaimVesting releases exactly what newly vested, conserves released+outstanding, mints only the native token, never panics on well-formed entries; CancelVest returns exactly the cancelled amount as claimable Eden and lowers the outstanding total by it without touching bank state; VestNow pays amount/factor; Vest adds exactly the vested-in amount. Two genuine defects were found by failing obligations (division by zero for zero-length schedules; claim panics after partial cancel), replayed on the real keeper and repaired by fix: commits.",
   note=COMMON_NOTE,
   ref="§8 C14"),
 "C15": dict(
   text="Proof plus complete enumeration: every bank MintCoins/BurnCoins call site in the elys packages (found in SSA, through declared supply-wrappers as well) sits in a function whose contract classifies the denoms it mints/burns, and those clauses are discharged on the real code: pool share mint/burn touch only that pool's share token, stablestake bond/unbond only the vault share token, vesting release and vest-now mint only the native token, the commitment MintCoins/BurnCoins wrappers never forward the ledger-only denoms (Eden, EdenB) to the bank, staking/LP reward mints are ledger-only literals. MatchAmmBalances (mints/burns pool assets) is proved unreachable from any message handler, block function or hook (migration only). Constant module names are cross-checked with the app's module-account permissions. One genuine deviation from the statement is a known finding (the burner burns any denom found at the zero address; replayed on the real app).",
   note=COMMON_NOTE + "SDK modules' own minting/burning (mint module inflation is not wired, staking slashing, gov deposit burns, IBC transfer vouchers) is outside elys code and not examined. A new mint/burn site without a classifying contract fails the scan.",
   ref="§8 C15"),
 "C16": dict(
   text="Proof, in three groups. (i) Byte-level key lemmas over spec functions extracted mechanically, on every run, from the SSA of the real key builders into SMT strings: the price key is prefix + separator + big-endian time (so keys of one asset and source are ordered by time) is proved; injectivity and exactness of the two lookup prefixes are REFUTED with two-letter models, replayed on the real key builders and recorded as known findings (no separator between asset and source). (ii) Under exact prefixes (the iterator's selection is declared per prefix family), contracts on the lookups: latest-from-asset-and-source returns a stored price of exactly that asset and source with nothing newer stored, none stored when not found; GetAssetPrice prefers Elys, then Band, then any source and never returns another asset; a denom without asset info or without a price yields zero. (iii) Feed handlers write only for a registered, active feeder, change nothing when rejected, and what they store is what a lookup at the block time finds; EndBlock removes every listed expired price, keeps every live one and adds nothing; the price table's writers are exactly the feed handlers, genesis, the migration and the Band IBC handler.",
   note=COMMON_NOTE + "That the store iterator yields every stored row of a prefix (and in key order) is assumed (T5); big-endian order/length/injectivity of the 8-byte time encoding are the three stated facts about Uint64ToBigEndian. Lists bounded to 2 in EndBlock / batch feed obligations (labelled bounded).",
   ref="§8 C16"),
 "C17": dict(
   text="Proof over every handler found by mechanical enumeration (all methods of all types implementing a module's generated MsgServer interface): for each of the 38 handlers whose message carries a governance authority (field Authority, or Creator in the parameter module) the generated contract {msg.authority != k.authority} H {err != nil and no state-changing primitive ran} holds on every path; a message type with an Authority field that is never compared fails. Owner-scoped: tradeshield update/cancel (spot, perpetual, batch forms) succeed only when the stored order's owner equals the sender.",
   note=COMMON_NOTE + "Handlers without a governance authority are listed in the evidence, not claimed. Owner-keyed position lookups of leveragelp/perpetual close are covered under C10 where claimed.",
   ref="§8 C17"),
 "C19": dict(
   text="Proof of a sufficient condition, over every non-test function of x/ and app/ reachable in the static call graph from a message handler, block function, hook, ante/IBC callback, genesis or upgrade function (870 entry points, ~1500 functions): (a) no store to a package-level variable and no store through a keeper/server/module receiver outside construction, so consensus state lives in the KV stores only and a restart re-reads the same world; (b) no wall clock, randomness, environment, goroutine or select, except time.Now() whose value flows only into telemetry; (c) every range over a Go map is order-independent: recognised commutative forms, or (burner) a `commutes` contract clause discharged by symbolic execution of both orders on the ghost world. Equality of application hashes across processes, database recovery and codec determinism are not decidable by contracts on this code (they sit in the SDK/CometBFT/IAVL, T1/T5) and are not claimed.",
   note=COMMON_NOTE + "The call graph is class-hierarchy based (superset of the real wiring). Transient-store scratch and sort stability are not examined.",
   ref="§8 C19"),
 "C20": dict(
   text="Proof on every tradeshield order handler and execution helper: create escrows exactly the order amount/collateral under the owner's name; update changes no balance and keeps owner/amount; cancel (single and batch) succeeds only for the owner, returns the full escrow, removes the order and moves nobody else's funds; execution helpers conserve owner wallet + escrow on every exit (the caller swallows errors), move nothing unless the module's own price call satisfies the trigger, and never touch escrows of other orders of either kind (address templates proved distinct, not assumed); batch execution of spot orders moves funds only between listed escrows and their owners. A genuine defect (failed limit-open execution committing a half-opened position) was found by a failing obligation, reproduced on the real keeper and repaired by a fix: commit.",
   note=COMMON_NOTE + "amm swap acceptance is summarised by a proved frame (only the request queue changes); perpetual.Open is read as arbitrary state change on whatever context it is given. Order-id collections bounded to 2 in the batch obligations (labelled bounded).",
   ref="§8 C20"),
}

REASONS = {
 "C03": "Not decidable by contracts on this code with the installed solvers: the statement is a family of inequalities over Pow/PowApprox (a Maclaurin series with data-dependent termination) and chains of 18-digit truncations; with decimals modelled exactly these are nonlinear integer problems with div/mod on which z3 4.8.12, z3 5.1.0 and cvc5 1.0.3 time out (tried on the equal-weight constant-product case), and with products abstracted (decabstract) the inequality cannot be stated. What contracts do decide about swaps (exact settlement, denoms, frames, share/reserve bookkeeping) is claimed under C02 and C04. A numeric sweep would be testing, a different technique. See DESIGN.md §A.5.",
 "C05": "Not decidable by contracts on this code with the installed solvers, for the same reason as C03: value comparisons of joins and exits go through CalcJoinPoolShares / CalcExitPool / Pow with nested 18-digit roundings (nonlinear integer arithmetic with div/mod: solver timeouts), and the abstracted form cannot express 'worth at most'. The structural half that contracts reach (an exit must leave shares: shareIn < totalShares is checked by ExitPool; share totals move by exactly the minted/burnt amount) is covered under C02. See DESIGN.md §A.5.",
}
not_applicable = {}
for i in range(1, 21):
    pid = "C%02d" % i
    if pid not in claimed:
        not_applicable[pid] = REASONS.get(pid, "check not built yet in this session (work in progress; see DESIGN.md §A.4/§8)")

checks = []
for pid, c in sorted(claimed.items()):
    checks.append({
        "property_id": pid,
        "quick_cmd": "./check.sh %s quick" % pid,
        "thorough_cmd": "./check.sh %s thorough" % pid,
        "evidence_file": "/verif/evidence/%s.json" % pid,
        "replay_cmd_template": "cat {path}",
        "engine": "govc",
        "level_claimed": {"category": c.get("category", "proof"), "text": c["text"], "design_ref": c["ref"]},
        "level_note": c["note"],
        "technique": c.get("technique", TECH),
    })

hooks_commits = []
try:
    out = subprocess.check_output(["git", "-C", "/repo", "log", "--format=%H %s"], text=True)
    for line in out.splitlines():
        h, s = line.split(" ", 1)
        if s.startswith("verif:"):
            hooks_commits.append(h)
except Exception:
    pass

m = {
 "version": 1,
 "setup_cmd": "cd /verif/govc && GOFLAGS=-mod=mod GOPROXY=off GOSUMDB=off GOTOOLCHAIN=local go build -o /verif/bin/govc ./cmd/govc && cd /repo && GOFLAGS=-mod=mod GOPROXY=off GOSUMDB=off GOTOOLCHAIN=local go build ./x/... ./app/...",
 "hooks": {
   "guard": "verif",
   "enable": "go build -tags verif (the guarded files are comment-only contract files named contracts_verif.go; govc loads /repo with -tags=verif and reads the //@ lines)",
   "baseline_off_cmd": "cd /repo && GOFLAGS=-mod=mod go test -vet=off -count=1 -timeout 25m ./...",
   "source_commits": hooks_commits,
   "add_only": True,
 },
 "engines": [{"name": "govc", "path": "/verif/govc", "serves_properties": sorted(claimed.keys()),
              "kind_free_text": "self-written verification-condition generator: path-enumerating symbolic execution of go/ssa built from /repo's working tree, contracts parsed from //@ comment files, ghost KV tables / bank / aggregates, VCs discharged by z3 5.1.0, z3 4.8.12 and cvc5 1.0.3 raced"}],
 "checks": checks,
 "not_applicable": [{"property_id": k, "reason": v} for k, v in sorted(not_applicable.items())],
 "notes": "All checks rebuild SSA from /repo's current working tree on every run. Claimed obligations are frozen in baseline/obligations.json; genuine defects recorded in known_findings.json.",
}
json.dump(m, open(os.path.join(V, "MANIFEST.json"), "w"), indent=1)
print("wrote MANIFEST.json with", len(checks), "checks;", len(not_applicable), "not_applicable")
