#!/bin/bash
# creates an independent scratch worktree of /repo for a mutant-writing sub-agent: HEAD minus
# the contract files (so nothing of the verification machinery is visible there)
set -e
id=$1
wt=/tmp/seedwt/$id
git -C /repo worktree remove --force $wt >/dev/null 2>&1 || true
rm -rf $wt
git -C /repo worktree add --detach $wt HEAD >/dev/null 2>&1
cd $wt
find . -name 'contracts*_verif.go' -not -path './.git/*' | xargs -r git rm -q
git -c user.name=builder -c user.email=b@x commit -qm "base for seeded change (contract files removed)" || true
mkdir -p /tmp/seed/$id
echo $wt
