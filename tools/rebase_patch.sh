#!/bin/bash
# rebase_patch.sh <patch> : re-creates a patch against /repo's current HEAD (fuzzy apply in a
# scratch worktree), overwriting it when successful
p=$1; wt=/var/tmp/verif-rebase-$$
git -C /repo worktree add --detach $wt HEAD >/dev/null 2>&1 || exit 2
trap 'git -C /repo worktree remove --force $wt >/dev/null 2>&1; rm -rf $wt' EXIT
cd $wt
if git apply "$p" 2>/dev/null; then echo "applies cleanly: $p"; exit 0; fi
if patch -p1 --fuzz=3 --no-backup-if-mismatch < "$p" >/dev/null 2>&1; then
  find . -name '*.orig' -delete; find . -name '*.rej' -delete
  git diff > "$p.new" && mv "$p.new" "$p" && echo "rebased: $p"
else echo "CANNOT REBASE: $p"; exit 1; fi
