#!/bin/bash
# Confirms a seeded change produced by a sub-agent, in a scratch worktree of /repo's HEAD:
# patch applies and builds; the demonstration fails with it and passes without it; the existing
# tests of the touched packages still pass with it. Then files it under /verif/seeded/<id>[-n]/.
# usage: confirm_seed.sh <Cxx> [srcdir=/tmp/seed/<Cxx>] [name=<Cxx>]
set -u
export GOFLAGS=-mod=mod GOPROXY=off GOSUMDB=off GOTOOLCHAIN=local
id=$1; src=${2:-/tmp/seed/$id}; name=${3:-$id}
dst=/verif/seeded/$name
wt=/var/tmp/verif-confirm-$name-$$
log=/var/tmp/verif-confirm-$name-$$.log
trap 'git -C /repo worktree remove --force "$wt" >/dev/null 2>&1; rm -rf "$wt"' EXIT
git -C /repo worktree add --detach "$wt" HEAD >/dev/null 2>&1 || exit 2
cd "$wt"
demo_path=$(python3 -c "import json;print(json.load(open('$src/meta.json'))['demo_path'])")
pkgdir=$(dirname "$demo_path")
demo_cmd=$(python3 -c "import json;print(json.load(open('$src/meta.json'))['demo_run_cmd'])")
pkgs=$(grep '^+++ b/' "$src/patch.diff" | sed 's|+++ b/||' | xargs -n1 dirname | sort -u | sed 's|^|./|' | tr '\n' ' ')
{
echo "== apply"; git apply "$src/patch.diff" && echo applied || { echo "PATCH DOES NOT APPLY"; exit 1; }
echo "== build"; go build ./... && echo build-ok || { echo "BUILD FAILS"; exit 1; }
echo "== existing tests with patch: $pkgs ./$pkgdir"; go test -vet=off -count=1 -timeout 40m $pkgs ./$pkgdir 2>&1 | tail -15; rc_existing=${PIPESTATUS[0]}
cp "$src/demo_test.go" "$demo_path"
echo "== demo with patch (expect FAIL)"; bash -c "$demo_cmd" 2>&1 | tail -15; rc_with=${PIPESTATUS[0]}
git apply -R "$src/patch.diff"
echo "== demo without patch (expect PASS)"; bash -c "$demo_cmd" 2>&1 | tail -8; rc_without=${PIPESTATUS[0]}
echo "RESULT existing_with_patch_rc=$rc_existing demo_with_patch_rc=$rc_with demo_without_patch_rc=$rc_without"
} > "$log" 2>&1
mkdir -p "$dst"
cp "$src/patch.diff" "$src/demo_test.go" "$dst/"
cp "$log" "$dst/confirm.log"
python3 - "$src/meta.json" "$dst/meta.json" "$log" <<'PY'
import json,sys,re
m=json.load(open(sys.argv[1])); log=open(sys.argv[3]).read()
r=re.search(r'RESULT existing_with_patch_rc=(\d+) demo_with_patch_rc=(\d+) demo_without_patch_rc=(\d+)',log)
m['confirmed_by_me']= bool(r and r.group(1)=='0' and r.group(2)!='0' and r.group(3)=='0')
m['confirm_result']= r.group(0) if r else 'incomplete'
m['what_i_ran']='tools/confirm_seed.sh: scratch worktree of /repo HEAD; git apply; go build ./...; go test of touched packages with the patch; demo test with patch (must fail) and without (must pass)'
json.dump(m,open(sys.argv[2],'w'),indent=1)
print(m['confirm_result'], 'confirmed=',m['confirmed_by_me'])
PY
rm -f "$log"
