#!/usr/bin/env python3
"""mk_mutant.py <out.diff> <file-in-repo> <old> <new> : writes a one-edit patch, made in a scratch
worktree (never touches /repo's working tree)."""
import subprocess, sys, os, tempfile, shutil
out, path, old, new = sys.argv[1:5]
wt = tempfile.mkdtemp(prefix="verif-mkmut-", dir="/var/tmp")
os.rmdir(wt)
subprocess.check_call(["git", "-C", "/repo", "worktree", "add", "--detach", wt, "HEAD"], stdout=subprocess.DEVNULL, stderr=subprocess.DEVNULL)
try:
    p = os.path.join(wt, path)
    s = open(p).read()
    if old not in s:
        sys.exit("pattern not found in " + path)
    open(p, "w").write(s.replace(old, new, 1))
    d = subprocess.check_output(["git", "-C", wt, "diff"], text=True)
    os.makedirs(os.path.dirname(out), exist_ok=True)
    open(out, "w").write(d)
    print("wrote", out)
finally:
    subprocess.call(["git", "-C", "/repo", "worktree", "remove", "--force", wt], stdout=subprocess.DEVNULL, stderr=subprocess.DEVNULL)
    shutil.rmtree(wt, ignore_errors=True)
