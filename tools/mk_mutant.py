#!/usr/bin/env python3
"""mk_mutant.py <out.diff> <file-in-repo> <old> <new> : writes a one-edit patch, made in a scratch
worktree (never touches /repo's working tree)."""
import subprocess, sys, os, tempfile, shutil
out, path = sys.argv[1:3]
pairs = list(zip(sys.argv[3::2], sys.argv[4::2]))
wt = tempfile.mkdtemp(prefix="verif-mkmut-", dir="/var/tmp")
os.rmdir(wt)
subprocess.check_call(["git", "-C", "/repo", "worktree", "add", "--detach", wt, "HEAD"], stdout=subprocess.DEVNULL, stderr=subprocess.DEVNULL)
try:
    p = os.path.join(wt, path)
    s = open(p).read()
    for old, new in pairs:
        if old not in s:
            sys.exit("pattern not found in " + path + ": " + old[:60])
        s = s.replace(old, new, 1)
    open(p, "w").write(s)
    d = subprocess.check_output(["git", "-C", wt, "diff"], text=True)
    os.makedirs(os.path.dirname(out), exist_ok=True)
    open(out, "w").write(d)
    print("wrote", out)
finally:
    subprocess.call(["git", "-C", "/repo", "worktree", "remove", "--force", wt], stdout=subprocess.DEVNULL, stderr=subprocess.DEVNULL)
    shutil.rmtree(wt, ignore_errors=True)
