#!/bin/bash
# maintenance: re-records the claimed baseline of every registered check (never run by registered commands)
cd "$(dirname "$0")/.."
for p in $(python3 -c "import json;print(' '.join(c['property_id'] for c in json.load(open('MANIFEST.json'))['checks']))") "$@"; do
  ./bin/govc check $p --write-baseline 2>&1 | grep "baseline:\|unclaimed" | cut -c1-220
done
