#!/bin/bash
# maintenance: re-records the claimed baseline of every registered check (never run by registered commands)
cd "$(dirname "$0")/.."
for p in $(python3 -c "import json;print(' '.join(c['property_id'] for c in json.load(open('MANIFEST.json'))['checks']))") "$@"; do
  ./bin/govc check $p --write-baseline 2>&1 | grep "baseline:\|unclaimed" | cut -c1-220
done
# report claims (ensures/mints/burns/lemma/commutes/callers/scans) that the committed baseline had and the new one lacks
python3 - <<'PY'
import json,subprocess
try:
    old=json.loads(subprocess.check_output(["git","show","HEAD:baseline/obligations.json"],text=True))["claimed"]
except Exception: old={}
new=json.load(open("baseline/obligations.json"))["claimed"]
for p in sorted(old):
    lost=[x for x in set(old[p])-set(new.get(p,[])) if "/cover:" not in x and "/call:" not in x and "/frame" not in x and "/rowinv:" not in x]
    for x in sorted(lost): print("LOST-CLAIM",p,x)
PY
