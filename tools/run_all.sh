#!/bin/bash
# runs every claimed check (quick tier) on /repo and prints one line each
cd "$(dirname "$0")/.."
for p in $(python3 -c "import json;print(' '.join(c['property_id'] for c in json.load(open('MANIFEST.json'))['checks']))"); do
  out=$(./check.sh $p ${1:-quick} 2>&1); rc=$?
  echo "$p rc=$rc $(echo "$out" | tail -1)"
  echo "$out" | grep "^VIOLATION" | head -3
done
