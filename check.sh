#!/bin/bash
# usage: check.sh <Cxx> <quick|thorough>
# Rebuilds govc when its sources are newer than the binary, then decides the property on
# /repo's current working tree (nothing is cached between runs except Go's build cache).
set -u
export GOFLAGS=-mod=mod GOPROXY=off GOSUMDB=off GOTOOLCHAIN=local
cd "$(dirname "$0")"
VERIF="$(pwd)"
if [ ! -x "$VERIF/bin/govc" ] || [ -n "$(find "$VERIF/govc" -name '*.go' -newer "$VERIF/bin/govc" -print -quit)" ]; then
  (cd "$VERIF/govc" && go build -o "$VERIF/bin/govc" ./cmd/govc) || { echo "govc build failed" >&2; exit 2; }
fi
exec "$VERIF/bin/govc" check "$1" --tier "${2:-quick}"
