#!/bin/bash
# Must-fail corpus: applies each patch under selftest/mutants/<Cxx>/*.diff to a scratch
# worktree of /repo (outside /repo and /verif, removed afterwards) and requires the check of
# <Cxx> to report a violation there. Usage: selftest/run.sh [Cxx ...]
set -u
export GOFLAGS=-mod=mod GOPROXY=off GOSUMDB=off GOTOOLCHAIN=local
VERIF="$(cd "$(dirname "$0")/.." && pwd)"
WT=/var/tmp/verif-selftest-$$
OUT=/var/tmp/verif-selftest-out-$$
trap 'git -C /repo worktree remove --force "$WT" >/dev/null 2>&1; rm -rf "$WT" "$OUT"' EXIT
git -C /repo worktree add --detach "$WT" HEAD >/dev/null 2>&1 || { echo "cannot create worktree"; exit 2; }
mkdir -p "$OUT"
# snapshots: a long corpus run is not disturbed by a rebuild or a re-recorded baseline meanwhile
cp -r "$VERIF/baseline" "$OUT/baseline"
cp "$VERIF/known_findings.json" "$OUT/known_findings.json"
cp "${GOVC_BIN:-$VERIF/bin/govc}" "$OUT/govc"
GOVC_BIN="$OUT/govc"
props="$*"
[ -z "$props" ] && props=$(ls "$VERIF/selftest/mutants")
fail=0; n=0
for p in $props; do
  for m in "$VERIF"/selftest/mutants/$p/*.diff; do
    [ -f "$m" ] || continue
    n=$((n+1))
    if ! git -C "$WT" apply "$m" 2>/dev/null; then echo "SELFTEST $p $(basename $m): patch does not apply"; fail=1; continue; fi
    out=$(GOVC_REPO="$WT" GOVC_VERIF="$OUT" "${GOVC_BIN:-$VERIF/bin/govc}" check "$p" --tier quick 2>&1); rc=$?
    if [ $rc -eq 1 ] && echo "$out" | grep -q "^VIOLATION property=$p"; then
      echo "SELFTEST $p $(basename $m): caught ($(echo "$out" | grep -c '^VIOLATION') violation lines; first: $(echo "$out" | grep '^VIOLATION' | head -1 | sed 's/.*obligation=//' | cut -c1-120))"
    else
      echo "SELFTEST $p $(basename $m): MISSED (exit $rc)"; echo "$out" | tail -3; fail=1
    fi
    git -C "$WT" checkout -- . >/dev/null 2>&1; git -C "$WT" clean -fdq >/dev/null 2>&1
  done
done
# benign corpus: behaviour-preserving or property-preserving edits that must NOT raise an alarm
for p in $props; do
  for m in "$VERIF"/selftest/benign/$p/*.diff; do
    [ -f "$m" ] || continue
    n=$((n+1))
    if ! git -C "$WT" apply "$m" 2>/dev/null; then echo "SELFTEST $p benign $(basename $m): patch does not apply"; fail=1; continue; fi
    out=$(GOVC_REPO="$WT" GOVC_VERIF="$OUT" "${GOVC_BIN:-$VERIF/bin/govc}" check "$p" --tier quick 2>&1); rc=$?
    if [ $rc -eq 0 ] && ! echo "$out" | grep -q "^VIOLATION"; then
      echo "SELFTEST $p benign $(basename $m): quiet"
    else
      echo "SELFTEST $p benign $(basename $m): FALSE ALARM (exit $rc)"; echo "$out" | grep '^VIOLATION' | head -3; fail=1
    fi
    git -C "$WT" checkout -- . >/dev/null 2>&1; git -C "$WT" clean -fdq >/dev/null 2>&1
  done
done
echo "selftest: $n mutants, fail=$fail"
exit $fail
